#!/usr/bin/env python3
"""Run garnish-core's own test suite with the verification hooks OFF (no feature flags) and
compare with the pinned baseline: every test in BASELINE.json's stable_pass must pass."""
import json, os, subprocess, sys, xml.etree.ElementTree as ET

BASE = "/root/.vp/BASELINE.json"
HERE = os.path.dirname(os.path.abspath(__file__))

def main():
    repo = sys.argv[1] if len(sys.argv) > 1 else "/repo"
    env = dict(os.environ)
    env["CARGO_NET_OFFLINE"] = "true"
    env.pop("RUSTFLAGS", None)
    junit = repo + "/target/nextest/pb/junit.xml"
    if os.path.exists(junit):
        os.remove(junit)
    cmd = ["cargo", "nextest", "run", "--workspace", "--no-fail-fast", "--tool-config-file", "pb:%s/nextest.toml" % HERE,
           "--profile", "pb", "--test-threads", "8", "--offline"]
    r = subprocess.run(cmd, cwd=repo, env=env, stdout=subprocess.PIPE, stderr=subprocess.STDOUT, text=True)
    if not os.path.exists(junit):
        sys.stdout.write(r.stdout[-4000:])
        print("baseline: no junit produced")
        sys.exit(2)
    passed, failed = set(), set()
    for tc in ET.parse(junit).getroot().iter("testcase"):
        tid = (tc.get("classname") or "") + "::" + (tc.get("name") or "")
        if tc.find("failure") is not None or tc.find("error") is not None:
            failed.add(tid)
        elif tc.find("skipped") is None:
            passed.add(tid)
    stable = set(json.load(open(BASE))["stable_pass"])
    missing = sorted(stable - passed)
    print("baseline: %d passed, %d failed, %d of %d stable tests passing" % (len(passed), len(failed), len(stable & passed), len(stable)))
    for m in missing[:40]:
        print("  NOT PASSING: %s" % m)
    sys.exit(1 if missing else 0)

if __name__ == "__main__":
    main()
