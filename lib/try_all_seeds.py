#!/usr/bin/env python3
"""Re-run every kept seeded change against the current /repo HEAD: apply, run the property's quick check
(with a scratch evidence dir), revert. Writes seeded/RESULTS.json (what was run, what each check said)."""
import json, os, subprocess, sys, glob
ROOT = "/verif"
only = sys.argv[1:]
res = {}
head = subprocess.run(["git", "-C", "/repo", "rev-parse", "--short", "HEAD"], capture_output=True, text=True).stdout.strip()
assert subprocess.run(["git", "-C", "/repo", "status", "--porcelain"], capture_output=True, text=True).stdout.strip() == "", "/repo not clean"
for d in sorted(glob.glob(os.path.join(ROOT, "seeded", "C*"))):
    sid = os.path.basename(d)
    if only and sid not in only:
        continue
    meta = json.load(open(os.path.join(d, "meta.json")))
    patch = os.path.join(d, "patch.diff")
    chk = subprocess.run(["git", "-C", "/repo", "apply", "--check", patch], capture_output=True, text=True)
    if chk.returncode != 0:
        res[sid] = {"applies": False, "note": chk.stderr.strip()[:200]}
        print(sid, "DOES NOT APPLY")
        continue
    subprocess.run(["git", "-C", "/repo", "apply", patch], check=True)
    try:
        env = dict(os.environ, VERIF_EVIDENCE_DIR="/tmp/seed_evidence")
        os.makedirs("/tmp/seed_evidence", exist_ok=True)
        props = [meta["property"]] + [p for p in meta.get("also_run", [])]
        out = {}
        for p in props:
            r = subprocess.run([os.path.join(ROOT, "check"), p], capture_output=True, text=True, env=env)
            viol = [l for l in r.stdout.splitlines() if l.startswith("VIOLATION")]
            out[p] = {"exit": r.returncode, "violation_lines": len(viol), "first": viol[0][:260] if viol else ""}
        res[sid] = {"applies": True, "checks": out, "caught": any(v["exit"] == 1 and v["violation_lines"] > 0 for v in out.values())}
        print(sid, "caught" if res[sid]["caught"] else "MISSED", {p: (v["exit"], v["violation_lines"]) for p, v in out.items()})
    finally:
        subprocess.run(["git", "-C", "/repo", "checkout", "--", "."], check=True)
prev = {}
rp = os.path.join(ROOT, "seeded", "RESULTS.json")
if os.path.exists(rp) and only:
    prev = json.load(open(rp)).get("results", {})
prev.update(res)
json.dump({"repo_head": head, "tier": "quick", "results": prev}, open(rp, "w"), indent=1)
