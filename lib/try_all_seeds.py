#!/usr/bin/env python3
"""Re-run every kept seeded change against the current /repo HEAD. Each patch is applied in its own scratch
worktree of /repo's HEAD under /tmp and the driver is pointed at it with VERIF_REPO (private copy of the harness
sources, scratch evidence dir), so /repo itself is never touched and several seeds run side by side; worktree and
build output are removed afterwards. Runs the property's quick check (plus meta.also_run). Writes
seeded/RESULTS.json (what was run, what each check said).   usage: try_all_seeds.py [-j N] [SEED_ID ...]"""
import json, os, subprocess, sys, glob, shutil, hashlib
from concurrent.futures import ThreadPoolExecutor
ROOT = "/verif"
args = sys.argv[1:]
jobs = 4
if "-j" in args:
    i = args.index("-j"); jobs = int(args[i + 1]); del args[i:i + 2]
only = args
head = subprocess.run(["git", "-C", "/repo", "rev-parse", "--short", "HEAD"], capture_output=True, text=True).stdout.strip()

def one(d):
    sid = os.path.basename(d)
    meta = json.load(open(os.path.join(d, "meta.json")))
    patch = os.path.join(d, "patch.diff")
    tag = hashlib.sha1((sid + str(os.getpid())).encode()).hexdigest()[:8]
    wt, scratch = "/tmp/seedwt_" + tag, "/tmp/seedscratch_" + tag
    subprocess.run(["git", "-C", "/repo", "worktree", "add", "--detach", wt, "HEAD"], check=True, capture_output=True)
    try:
        chk = subprocess.run(["git", "-C", wt, "apply", patch], capture_output=True, text=True)
        if chk.returncode != 0:
            print(sid, "DOES NOT APPLY", flush=True)
            return sid, {"applies": False, "note": chk.stderr.strip()[:200]}
        os.makedirs(scratch, exist_ok=True)
        env = dict(os.environ, VERIF_REPO=wt, VERIF_SCRATCH=scratch, VERIF_EVIDENCE_DIR=os.path.join(scratch, "ev"), VERIF_SEED="1")
        out = {}
        for p in [meta["property"]] + list(meta.get("also_run", [])):
            r = subprocess.run([os.path.join(ROOT, "check"), p, "--threads", str(max(4, 16 // jobs))], capture_output=True, text=True, env=env, cwd=ROOT)
            viol = [l for l in r.stdout.splitlines() if l.startswith("VIOLATION")]
            out[p] = {"exit": r.returncode, "violation_lines": len(viol), "first": viol[0][:260] if viol else ""}
        res = {"applies": True, "checks": out, "caught": any(v["exit"] == 1 and v["violation_lines"] > 0 for v in out.values())}
        print(sid, "caught" if res["caught"] else "MISSED", {p: (v["exit"], v["violation_lines"]) for p, v in out.items()}, flush=True)
        return sid, res
    finally:
        subprocess.run(["git", "-C", "/repo", "worktree", "remove", "--force", wt], capture_output=True)
        shutil.rmtree(scratch, ignore_errors=True)

dirs = [d for d in sorted(glob.glob(os.path.join(ROOT, "seeded", "C*"))) if not only or os.path.basename(d) in only]
with ThreadPoolExecutor(max_workers=jobs) as ex:
    res = dict(ex.map(one, dirs))
prev = {}
rp = os.path.join(ROOT, "seeded", "RESULTS.json")
if os.path.exists(rp) and only:
    prev = json.load(open(rp)).get("results", {})
prev.update(res)
json.dump({"repo_head": head, "tier": "quick", "mode": "each patch applied in a scratch worktree of /repo HEAD, driver run with VERIF_REPO", "results": prev}, open(rp, "w"), indent=1, sort_keys=True)
missed = [k for k, v in prev.items() if not v.get("caught")]
print("seeds: %d, caught: %d, not caught / not applying: %s" % (len(prev), len(prev) - len(missed), missed))
