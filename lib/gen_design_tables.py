#!/usr/bin/env python3
"""Rewrite the generated tables of DESIGN.md (between <!-- BEGIN GENERATED:x --> / <!-- END GENERATED:x -->)
from known_findings.json and seeded/*/meta.json, so the document cannot drift from the committed files."""
import json, os, re, glob
ROOT = os.path.dirname(os.path.dirname(os.path.abspath(__file__)))

def esc(s):
    return s.replace("|", "\\|").replace("\n", " ")

def findings():
    j = json.load(open(os.path.join(ROOT, "known_findings.json")))
    fixed = [f for f in j["findings"] if f.get("status") == "fixed"]
    opened = [f for f in j["findings"] if f.get("status") == "open"]
    out = ["**Repaired in /repo (`fix:` commits; each entry is the `fixed:` line of known_findings.json):**", ""]
    out.append("| id | commit | what failed |")
    out.append("|---|---|---|")
    for f in sorted(fixed, key=lambda f: f["id"]):
        txt = f.get("fixed", "")
        m = re.match(r"fixed: property=\S+ (\S+) (.*)", txt)
        commit, what = (m.group(1), m.group(2)) if m else (f.get("commit", "?"), txt)
        out.append("| %s | `%s` | %s |" % (f["id"], commit, esc(what)))
    out += ["", "**Open known findings (genuine, not repaired; the check prints `KNOWN-FINDING:` for exactly these signatures):**", ""]
    out.append("| id | signatures | what fails and why it is not repaired |")
    out.append("|---|---|---|")
    for f in sorted(opened, key=lambda f: f["id"]):
        out.append("| %s | %s | %s |" % (f["id"], "<br>".join("`%s`" % esc(s) for s in f.get("signatures", [])), esc(f.get("description", ""))))
    return "\n".join(out)

def seeds():
    out = ["| seed | property | needs, to manifest | caught by |", "|---|---|---|---|"]
    for d in sorted(glob.glob(os.path.join(ROOT, "seeded", "*"))):
        mp = os.path.join(d, "meta.json")
        if not os.path.exists(mp):
            continue
        m = json.load(open(mp))
        out.append("| %s | %s | %s | %s |" % (m["id"], m["property"], esc(m.get("needs_to_manifest", "")), esc(m.get("caught_by", ""))))
    return "\n".join(out)

def main():
    p = os.path.join(ROOT, "DESIGN.md")
    s = open(p).read()
    for name, fn in (("findings", findings), ("seeds", seeds)):
        b, e = "<!-- BEGIN GENERATED:%s -->" % name, "<!-- END GENERATED:%s -->" % name
        if b in s and e in s:
            s = s[: s.index(b) + len(b)] + "\n" + fn() + "\n" + s[s.index(e):]
    open(p, "w").write(s)
    print("DESIGN.md tables regenerated")

if __name__ == "__main__":
    main()
