#!/usr/bin/env python3
"""usage: try_seed_wt.py <patch.diff> <PROP> [PROP...] [--tier quick|thorough] [--seed N]
Like try_seed.py but leaves /repo alone: applies the seeded change in a scratch worktree of /repo's HEAD
under /tmp and points the driver at it with VERIF_REPO (so several can run side by side). The worktree and
the private harness build are removed afterwards. The recorded verdicts in seeded/RESULTS.json still come
from try_all_seeds.py, which applies each patch to /repo itself."""
import subprocess, sys, os, shutil, hashlib
args = sys.argv[1:]
tier, seed = "quick", "1"
for flag in ("--tier", "--seed"):
    if flag in args:
        i = args.index(flag)
        if flag == "--tier": tier = args[i + 1]
        else: seed = args[i + 1]
        del args[i:i + 2]
patch, props = os.path.abspath(args[0]), args[1:]
tag = hashlib.sha1((patch + str(os.getpid())).encode()).hexdigest()[:8]
wt = "/tmp/seedwt_" + tag
scratch = "/tmp/seedscratch_" + tag
os.makedirs(scratch, exist_ok=True)
subprocess.run(["git", "-C", "/repo", "worktree", "add", "--detach", wt, "HEAD"], check=True, capture_output=True)
try:
    r = subprocess.run(["git", "-C", wt, "apply", patch])
    if r.returncode != 0:
        print("PATCH DOES NOT APPLY"); sys.exit(2)
    for p in props:
        env = dict(os.environ, VERIF_REPO=wt, VERIF_SCRATCH=scratch, VERIF_EVIDENCE_DIR=os.path.join(scratch, "ev"), VERIF_SEED=seed)
        r = subprocess.run(["/verif/check", p, "--tier", tier], capture_output=True, text=True, cwd="/verif", env=env)
        v = [l for l in r.stdout.splitlines() if l.startswith("VIOLATION")]
        print("%s: exit=%d, %d VIOLATION lines" % (p, r.returncode, len(v)))
        for l in v[:4]:
            print("   " + l[:330])
        if r.returncode not in (0, 1):
            print(r.stdout[-1500:])
finally:
    subprocess.run(["git", "-C", "/repo", "worktree", "remove", "--force", wt], capture_output=True)
    shutil.rmtree(scratch, ignore_errors=True)
