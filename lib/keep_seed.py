#!/usr/bin/env python3
"""usage: keep_seed.py <ID> <worktree> <a|b> <property> "<needs>" "<caught_by>" [--patch <rebased.diff>]
Store a confirmed seeded change under /verif/seeded/<ID>/ (patch.diff, demo, meta.json)."""
import sys, os, shutil, json, subprocess
sid, wt, x, prop, needs, caught = sys.argv[1:7]
patch = os.path.join(wt, "SEEDED", x + ".diff")
if "--patch" in sys.argv:
    patch = sys.argv[sys.argv.index("--patch") + 1]
d = os.path.join("/verif/seeded", sid)
os.makedirs(d, exist_ok=True)
if os.path.abspath(patch) != os.path.abspath(os.path.join(d, "patch.diff")):
    shutil.copy(patch, os.path.join(d, "patch.diff"))
shutil.copy(os.path.join(wt, "SEEDED", "seeded_demo_%s.rs" % x), os.path.join(d, "demo.rs"))
notes = os.path.join(wt, "SEEDED", "notes.md")
if os.path.exists(notes):
    shutil.copy(notes, os.path.join(d, "agent_notes.md"))
head = subprocess.run(["git", "-C", "/repo", "rev-parse", "--short", "HEAD"], capture_output=True, text=True).stdout.strip()
meta = {
    "id": sid, "property": prop, "origin": "fresh sub-agent given only the property text and a scratch worktree",
    "needs_to_manifest": needs,
    "confirmed": "lib/confirm_seed.sh in a scratch worktree: demo test passes without the change, fails with it; pinned suite 1500/1500 stable tests still pass with it",
    "checks_run": "lib/try_seed.py (git -C /repo apply; ./check <ID>; git -C /repo checkout -- .)",
    "caught_by": caught,
    "repo_head_when_tried": head,
    "demo": "demo.rs is an integration test for the garnish_lang_tests crate (tests/tests/<name>.rs): cargo test -p garnish_lang_tests --offline --test <name>",
}
json.dump(meta, open(os.path.join(d, "meta.json"), "w"), indent=1)
print("kept", d)
