#!/bin/bash
# usage: confirm_seed.sh <worktree> <a|b>   -- confirm a seeded change in its scratch worktree:
#  demo fails with the change, passes without it; the pinned suite still passes with it.
set -u
WT=$1; X=$2
cd "$WT" || exit 2
git checkout -q -- . 2>/dev/null
cp SEEDED/seeded_demo_$X.rs tests/tests/seeded_demo_$X.rs
echo "== demo WITHOUT change (expect pass)"
CARGO_NET_OFFLINE=true cargo test -p garnish_lang_tests --offline --test seeded_demo_$X 2>&1 | grep -E "^test result|error(\[|:)" | head -3
git apply SEEDED/$X.diff || { echo "PATCH DOES NOT APPLY"; exit 2; }
echo "== demo WITH change (expect FAILED)"
CARGO_NET_OFFLINE=true cargo test -p garnish_lang_tests --offline --test seeded_demo_$X 2>&1 | grep -E "^test result|error(\[|:)" | head -3
echo "== pinned suite WITH change (expect 1500 of 1500)"
rm -f tests/tests/seeded_demo_*.rs
python3 /verif/lib/baseline.py "$WT" | tail -3
git checkout -q -- .
