#!/usr/bin/env python3
"""Generate /verif/MANIFEST.json from the table below (single source of truth)."""
import json, os

ROOT = os.path.dirname(os.path.dirname(os.path.abspath(__file__)))

CHECKS = {
 "C01": dict(
  technique="runtime monitor: reference-model oracle (independent big-step evaluator over the core-language AST) comparing the value read back at the data-trait boundary after executing the real pipeline; shadow-stack agreement checked on the way",
  text="Every core-language AST with at most 3 nodes (4 thorough) over 12 atoms, 27 binary operators (incl. concatenation `<>` and partial application `~`) and 10 unary operators, lists, nested expressions, conditionals, separators and side-effect blocks x 4 (13) input values (unit, numbers, text, keyed lists, pairs, concatenations, slices of a list / a concatenation / text), 72 bounded reapply loops (8 templates), hand-written regression programs and 400 000 (20 million) random programs up to several hundred nodes are printed with minimal parentheses, compiled and run to completion on both stores under a scripted host; the current value is read back through getters and compared strictly with the reference evaluator's value.",
  note="trusts the S-rules implemented in eval.rs; runs touching semantics the rules do not pin are skipped (counted); the printer is self-checked against the reference parser on every case",
  design="DESIGN.md §3.3, §3.4, §5 C01"),
 "C02": dict(
  technique="runtime monitor: reference-model oracle (independent precedence-climbing parser over the pinned operator table) + metamorphic oracle (fully parenthesised text parses to the same tree modulo group nodes)",
  text="Every ordered pair of 50 binary forms, 9 prefix and 4 suffix operators in 8 pair shapes, triples a B b B c B d (every tenth quick, all 125000 thorough), every unary operator around the middle operand of every binary pair, each in a spaced and a tight layout, and random deeper expressions with groups and nested expressions (a third of them once more with a side-effect block after one atom, compared modulo the block): the real parse tree must equal the reference parser's tree, and the fully parenthesised spelling must parse to the same tree once plain group nodes are removed.",
  note="trusts the pinned operator table (DESIGN Appendix D); docs/src/precedence.md disagreements are not judged; rejected inputs are counted only",
  design="DESIGN.md §5 C02, Appendix D"),
 "C03": dict(
  technique="runtime monitor: panic capture + logical-step budgets (verif_hooks tick counters, instruction/data budgets enforced at the data-trait boundary) over bounded-exhaustive token-class sequences, soups and scaling families; witness delta-minimisation",
  text="Every sequence up to length 5 (6 thorough) over five focused alphabets of 10-12 tokens (conditionals, blocks and lists, expressions and apply forms, separators, identifier applications), every sequence of 33 token classes up to length 3 (4 thorough, 5 without fillers) with gap fillers, random token soups, character soups and literal soups (char-list / byte-list / number tokens assembled from valid, boundary and malformed escape, code-point and digit fragments) and 14 scaling families up to 4096 (16384) repetitions are pushed through lex, parse and build into both stores; the monitor demands Ok or Err from each stage, no unwinding, at most 64(n+4)^3 loop iterations per stage and at most 16(n+4) instructions / 64(n+4)+4L data cells for an n-token input. The repository's own tests/scripts/*.garnish files (whole, and cut into prefixes / suffixes) are part of the corpus.",
  note="termination/cost decided on logical steps against a fixed cubic bound; aborts (stack overflow, OOM) are caught by the driver's crash path",
  design="DESIGN.md §5 C03, Appendix B"),
 "C04": dict(
  technique="runtime monitor: offline checker over the recorded parse tree and instruction metadata of every accepted input (link agreement, reachability, in-order token accounting, one instruction per node)",
  text="The same corpus as C03 (plus every small AST and random well-formed programs from the C01 generators, a quarter of them with restarts `^~` at arbitrary positions) restricted to inputs that parse and build accept: the recorded ParseResult is checked for agreeing child/parent links, no sharing or cycle, every non-separator node reachable from the root, an in-order walk listing the significant tokens exactly once in source order, and every value/operator node attributed at least one emitted instruction. The repository's own tests/scripts/*.garnish files (whole, and cut into prefixes / suffixes) are part of the corpus.",
  note="violations are keyed by structural root cause (node kinds and relation); dropped redundant separators may remain as unreachable garbage nodes",
  design="DESIGN.md §5 C04"),
 "C05": dict(
  technique="runtime monitor: offline checker over the built instruction stream read back through the data trait + the monitored build's event log (placeholder pushes and patches)",
  text="Every accepted input of the corpus (C03's inputs plus generated well-formed programs, a quarter of them with restarts `^~` at arbitrary positions) on both stores: operands of Put/Resolve name existing values of the right kind, jump operands and expression values name existing jump entries, every entry written by the build points inside the program and every placeholder recorded in the event log was patched, the stream ends in EndExpression/JumpTo, the reported entry is one of the build's own entries, and there is exactly one metadata record per instruction naming an existing node. The repository's own tests/scripts/*.garnish files (whole, and cut into prefixes / suffixes) are part of the corpus.",
  note="placeholders are known from the event log at the trait boundary, not inferred from values",
  design="DESIGN.md §5 C05"),
 "C06": dict(
  technique="runtime monitor: abstract interpretation of every built stream (all paths) + per-step arity check of the executing program against the instruction effect table, via the shadow stacks of the delegating monitor",
  text="Every accepted input without `;;`: statically, pending-operand depth must be path-independent, never negative and exactly one at EndExpression; dynamically every executed step on both stores must change (operands, input values, frames) as the effect table says and the depths must be restored at the end; reapply loops are run for 1,2,4,8,64 iterations and their stack high-water marks compared. The repository's own tests/scripts/*.garnish files (whole, and cut into prefixes / suffixes) are part of the corpus.",
  note="trusts the instruction effect table (DESIGN Appendix A), which is itself validated by the dynamic part",
  design="DESIGN.md §5 C06, Appendix A"),
 "C07": dict(
  technique="runtime monitor: panic capture around every execution step of accepted programs (incl. boundary-literal programs) under three host modes, on an overflow-checking build and a release build",
  text="Every accepted input of the corpus plus every program `a op b` / `op a` / `a op` over 57 boundary literals (i32 limits, huge/tiny/infinite floats, empty and multi-byte text, out-of-range indexes, ranges and slices incl. bounds at i32::MAX-1, negative starts, a float bound of 1e300, reversed ranges, concatenations holding such slices) and 36 binary / 13 unary operators, and random two-operator programs over the same pool, are executed step by step on both stores with no host, a declining host and an accepting host under a step budget and a store-call budget; any unwinding is a violation. Deeply nested data: 7 value shapes nested 64..4000 (100 000) levels deep x 18 operations x both stores, each in a child process on a 2 MiB thread stack, where a stack overflow (abort) is a violation as well. Runs under the `mon` (overflow-checks, debug-assertions) and `release` profiles. The repository's own tests/scripts/*.garnish files (whole, and cut into prefixes / suffixes) are part of the corpus.",
  note="Err results are acceptable; aborts are caught by the driver's crash path and, for the deep-data cases, read from the child's exit status; unoptimised (opt-level 0) builds are not exercised",
  design="DESIGN.md §5 C07"),
 "C13": dict(
  technique="runtime monitor: reference-model oracle (independent position-based maximal-munch scanner over a pinned token table) + offline checks of the recorded token vector (losslessness, positions)",
  text="Every string up to length 3 (4 thorough) over a 34-character alphabet, longer strings over reduced alphabets (up to length 5 / 7), every ordered pair of the 60 operator spellings in four contexts and random assembled strings are lexed by the real lexer; the recorded token vector is checked for losslessness, empty tokens, exact line/column of each token's first character, boundaries and types against the reference scanner, the blank-line rule, and rejection of characters that start no token. The repository's own tests/scripts/*.garnish files (whole, and cut into prefixes / suffixes) are part of the corpus.",
  note="trusts the pinned token table / scanning rules (DESIGN Appendix E); CR/FF inputs are judged for loss only; rejection of an input the reference can split is accepted",
  design="DESIGN.md §5 C13, Appendix E"),
 "C14": dict(
  technique="runtime monitor: round-trip oracle (generated value -> spelling -> lex/parse/build/execute -> read-back through getters) on one-literal programs",
  text="All strings of length<=2 (3 thorough) over an 11-character alphabet with quotes, backslash, control and 2/3/4-byte characters in 1-, 3- and 4-quote spellings; all byte vectors of length<=2 over 7 byte values in numeric and character spellings; 20 boundary integers in every radix 2..36 with separators and leading zeros; floats in decimal and exponent form; ASCII and multi-byte symbol names; plus random literals. Each is compiled and run on both stores and the value, the element getters and the store's symbol-name table are compared with the generated value.",
  note="trusts the spelling rules listed in the evidence assumptions; negative numbers have no literal and are outside the property",
  design="DESIGN.md §5 C14"),
 "C15": dict(
  technique="runtime monitor: abstract model of independent growable tables checked after every operation of bounded-exhaustive and random operation histories + structural invariant hooks (block layout, stack heads, intern cache)",
  text="Every history of length<=4 (6 thorough) over 9 operation kinds (incl. symbol-list merges, multi-byte symbol names and symbols made from a number's text) on SimpleGarnishData and on BasicGarnishData under 9 size/growth configurations (initial 0,1,2 x +1,+2,x2, default), with a full read-back of all data values, symbol names, instructions, jump entries, registers, value stack and frame chain plus the block-layout invariant after every single operation; every interning sequence of length 3 (4) over 15 constants including hash-stream alias pairs; stores holding thousands of distinct constants, each added a second time; random histories of 1500 (6000) operations.",
  note="trusts the table model; storage settings are reached through a verif_hooks constructor because the crate does not export their types",
  design="DESIGN.md §5 C15"),
 "C16": dict(
  technique="runtime monitor: reference-model oracle (insertion-ordered sequence + key map) over store API calls and Access/Apply instructions on built lists and concatenations",
  text="Every list of length<=3 (4 thorough) over 7 item kinds exhaustively, plus random lists up to 24 (64) items and concatenations with adversarial distinct symbol keys; on both stores the monitor reads length, every index inside and outside, iteration order, and looks up every present key and several absent keys, directly and through the Access/Apply instructions (each of which must replace its two operands by exactly one result), reads the length through AccessLengthInternal and the item sequence through a cast to a list, comparing each answer with the sequence/key-map model and flagging any error.",
  note="keys are distinct per value; apply on concatenations and fractional indexes are outside the property",
  design="DESIGN.md §5 C16"),
 "C08": dict(
  technique="runtime monitor: scripted-host event log (defer_op calls with arguments) + operand-depth shadow model, over the complete instruction x type-pair x host matrix",
  text="The finite matrix is enumerated completely every run: 31 binary and 10 unary instructions x every ordered pair of representative values of all 19 types x both stores x host absent/declining/accepting, each executed as a one-instruction program through execute_current_instruction under the delegating monitor. For cells in the pinned undefined set the monitor demands exactly one defer_op call with the operation and both (type,address) operands in source order, unit after a decline, the host's value after an accept and exactly one result; every cell is held to the generic clauses (at most one defer, UnsupportedOpTypes never escapes). Exhaustive over types and instructions; values within a type are representatives.",
  note="trusts the definedness table of DESIGN Appendix C (transcribed from the runtime's explicit arms) as the statement of which combinations have a defined result",
  design="DESIGN.md §5 C08, Appendix C"),
 "C11": dict(
  technique="runtime monitor: reference-model oracle (structural equality on read-back values) + relational-law checker over observed results + sentinel-under-operands balance check",
  text="All ordered pairs of 338 small values (31 leaves of 14 kinds, among them numbers that agree in their first seven digits or differ in the last bit and every width<=2 pair/list/concatenation over 9 bases) exhaustively, plus random trees (depth<=3 quick, 5 thorough) each paired with an identical copy, a reshaped equivalent, a one-point mutant or an unrelated tree, built in four construction orders, every eighth case a value that holds one shared sub-value two or three times; Equal and NotEqual are executed on both stores with a sentinel operand underneath and compared with an independent structural equality; symmetry, negation and transitivity are checked on the observed answers.",
  note="trusts the reference equality incl. its list/concatenation flattening rule; NaN and slices are outside the generator",
  design="DESIGN.md §5 C11"),
 "C12": dict(
  technique="runtime monitor: reference-model oracle (natural total order) + relational-law checker (trichotomy, <= is not >, < iff reversed >) over observed results",
  text="All ordered pairs within number lattice (ints, floats, NaN/inf, int/float neighbours), all strings of length<=2 (3 thorough) over {a,b,é,😀}, byte lists, chars, bytes and cross-type representatives of all 19 types, plus random shared-prefix pairs; the four ordering instructions and Equal run on both stores and are compared with the natural order (numeric / lexicographic, shorter prefix first), the all-false rule for other combinations and unit for NaN.",
  note="slice/slice pairs are only checked for absence of failure (not settled by the property)",
  design="DESIGN.md §5 C12"),
 "C09": dict(
  technique="runtime monitor: reference-model oracle (i128/f64) over boundary-lattice + random operand pairs at the GarnishNumber boundary and at the instruction boundary; overflow-check (mon) and release builds",
  text="Every pair of a 193-value i32 boundary lattice x all 12 binary operations, a 50-value float/mixed lattice (zeros, subnormals, 2^31/2^53 edges, huge, inf, NaN), unary operations, and random pairs are executed on the real SimpleNumber methods and through the arithmetic/bitwise instructions on both stores; each observed result is compared with an independent exact-or-unit reference. Held-on-observed, not a proof: operands outside lattice+sample are not explored.",
  note="trusts: Rust i128 / IEEE f64 arithmetic and libm powf/fmod as the reference; the two admissible-set choices recorded in DESIGN C09",
  design="DESIGN.md §5 C09"),
 "C10": dict(
  technique="runtime monitor: exhaustive truth matrix (every value type x every testing construct) against the two-falsy rule, plus an online host-event log (every identifier evaluation is a recorded resolve call) compared with an independent reference evaluator's log",
  text="Every value-type representative (empty and non-empty) is supplied as `$` to 26 programs over ?> !> && || ^^ !! ?? on both stores and to Xor/Not/Tis as single instructions; results are compared with 'false iff unit or $!'. 38 templates of conditionals / else-chains / && / || over identifiers that only the scripted host can answer are run under every assignment of truthy and falsy host values, and random logic-dense programs on top: the recorded sequence of resolve calls and the final value must equal the reference evaluator's (right operand only when needed, only the selected arm, conditions in order). Held on the programs observed.",
  note="trusts: the reference evaluator (eval.rs) for the expected resolve sequence; left-to-right operand order",
  design="DESIGN.md §5 C10"),
 "C17": dict(
  technique="runtime monitor: recorded host-callback history (resolve / apply events at the GarnishData boundary and inside the stores' native hooks) checked against an independent reference evaluator's expected call log and value",
  text="Templates with identifiers and externals at operand positions (incl. partial applications of host-provided values and of expressions), every small AST that mentions an identifier, and random programs are run under hosts that resolve none/some/all symbols (to values and externals) and accept or decline external applies, with input values defining none/some/all identifiers (lists, pairs, concatenations, slices). Each program runs four ways: wrapper-scripted host on both stores, SimpleGarnishData::set_resolver, and a BasicDataCompanion implementing resolve and apply. The recorded sequence of resolve(symbol) / apply(external, argument) calls and the final value must equal the reference evaluator's, and the deferred-operation hook must not be called in a program in which the reference defers nothing; the log written inside the native callback must equal the one at the trait boundary. Held on the programs observed.",
  note="trusts: the reference evaluator's lookup rule (input value first, then host) and left-to-right operand order; SimpleGarnishData has no apply hook, so native acceptance of external applies is exercised on BasicGarnishData only (as the property scopes it)",
  design="DESIGN.md §5 C17"),
 "C18": dict(
  technique="runtime monitor: metamorphic oracle over executions - each generated program is run as printed and after every single meaning-free layout rewrite (and random combinations); observed parse tree, final value on both stores and host-call sequence are compared; where a rewrite is admissible is decided by the reference lexer and reference parser, not by the code under test",
  text="Every small AST, random larger programs and the bounded restart loops of C01 are rewritten at every position: widen / replace / remove blank runs, insert a blank or an annotation between adjacent tokens, annotation or comment line inside a blank run, trailing blanks before line breaks and at the end, comment lines after line breaks and at the start, parentheses around every operand, effect-free side-effect blocks added after every value, group or finished suffix operation, before every plain operand that follows a binary operator or a comma, as the first thing inside a group or expression literal, and dropped where present, plus random combinations of 2..7 rewrites. The rewritten text must parse to the same tree (modulo trivia, added groups, added blocks), produce the same value and resolve-call sequence on both stores, and still terminate (a program that finished in n steps and is still running after 20 000 >= 40 n once rewritten is a violation). Held on the programs and rewrite positions observed. The repository's own tests/scripts/*.garnish files (whole, and cut into prefixes / suffixes) are part of the corpus.",
  note="trusts: the reference lexer/parser as the judge of where blanks may be added or removed; programs with side-effect blocks have no reference tree and only get rewrites that need no confirmation plus the structural ones",
  design="DESIGN.md §5 C18"),
 "C19": dict(
  technique="runtime monitor: before/after read-back of every observable root (registers, input-value stack, frame chain, symbol names, retained prefix, mapped extra roots) around optimize / clone_data on random value graphs, checked against a shadow model and a block-layout invariant hook; plus fault-injection style scheduling of optimize at every step boundary of running programs, compared with the undisturbed run",
  text="Random value graphs with shared sub-values are built through the trait on BasicGarnishData, values pushed on the three stacks, symbol names registered, a random retention point chosen, clone_data applied to random values and optimize applied 1..3 times with random extra roots (some already on a stack); every register, input value, frame return address, symbol name, retained value and mapped root is read back and must equal what it was and what the shadow model says; the heap block invariant is checked after every optimize. Generated programs are run undisturbed and with optimize injected before step k for every k (sampled beyond 48 steps), before every step and before every third step; value and step count must not change. Held on the graphs, histories and injection points observed.",
  note="trusts: the protocol 'retain_all_current_data() after build' (constants named by instructions lie in the retained prefix); read-back through the public getters as the notion of 'structurally identical'",
  design="DESIGN.md §5 C19"),
 "C20": dict(
  technique="runtime monitor: recorded build/run histories on one shared monitored data object; per-build stream compared (rebased) with the same program built alone, earlier programs' pieces re-read after every later build and run (offline snapshot comparison), results compared with the alone runs",
  text="Pairs and triples of hand-picked programs (incl. programs whose build fails, programs without a significant token, casts between text and symbols) and random sequences of 2..4 generated programs are built into one data object in every order (4 random orders for 4 programs), with runs of already-built programs interleaved between builds in four patterns, on both stores. Each build's instruction range, jump-entry range and reported entry are recorded; its rebased stream must equal that of the program built alone (so every jump, expression value and data operand names its own pieces or an equal constant); every earlier program's instructions, jump entries and constants must read back unchanged after each later build and run; each program run from its reported entry must stay inside its own instructions, restore the stacks and give the value and step count of its run alone. Held on the sequences, orders and interleavings observed.",
  note="trusts: the alone-build of the same source as the reference for what a program's stream should be (C05/C06 check that stream by itself)",
  design="DESIGN.md §5 C20"),
}

NOT_YET = "check not built yet in this round (work in progress; will be claimed once its monitor exists)"

def main():
    props = [json.loads(l) for l in open(os.path.join(ROOT, "properties.jsonl"))]
    checks = []
    na = []
    for p in props:
        pid = p["id"]
        c = CHECKS.get(pid)
        if not c:
            na.append({"property_id": pid, "reason": NOT_YET})
            continue
        checks.append({
            "property_id": pid,
            "quick_cmd": "./check %s --tier quick" % pid,
            "thorough_cmd": "./check %s --tier thorough" % pid,
            "evidence_file": "/verif/evidence/%s.json" % pid,
            "replay_cmd_template": "./check %s --replay {path}" % pid,
            "engine": "gmon",
            "level_claimed": {"category": "exploration", "text": c["text"], "design_ref": c["design"]},
            "level_note": c["note"],
            "technique": c["technique"],
        })
    hooks_commits = []
    hc = os.path.join(ROOT, "lib", "hook_commits.txt")
    if os.path.exists(hc):
        hooks_commits = [l.strip() for l in open(hc) if l.strip()]
    m = {
        "version": 1,
        "setup_cmd": "./check --setup",
        "hooks": {
            "guard": "cargo feature `verif_hooks` (crates garnish_lang_compiler, garnish_lang_simple_data); off by default",
            "enable": "the harness crate /verif/harness depends on /repo's crates by path with features=[\"verif_hooks\"]; every ./check rebuilds it from /repo's working tree (cargo build --offline, profiles `mon` = release+overflow-checks+debug-assertions and `release`)",
            "baseline_off_cmd": "python3 /verif/lib/baseline.py",
            "source_commits": hooks_commits,
            "add_only": True,
        },
        "engines": [{
            "name": "gmon",
            "path": "/verif/harness",
            "serves_properties": [c["property_id"] for c in checks],
            "kind_free_text": "dependency-free Rust harness: delegating GarnishData monitor (event log, shadow stacks, scripted host, budgets), reference models (numbers, values, lexer, parser, evaluator), bounded-exhaustive + random workloads on 16 threads; python3 driver ./check applies known_findings.json, writes evidence and replays",
        }],
        "checks": checks,
        "notes": "All verdicts are held-on-observed / violated(witness) / inconclusive(exit 2). Known findings: /verif/known_findings.json. Seeded breakages used to test the monitors: /verif/seeded/.",
        "not_applicable": na,
    }
    with open(os.path.join(ROOT, "MANIFEST.json"), "w") as f:
        json.dump(m, f, indent=1)
    print("MANIFEST.json: %d checks, %d not claimed" % (len(checks), len(na)))

if __name__ == "__main__":
    main()
