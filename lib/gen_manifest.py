#!/usr/bin/env python3
"""Generate /verif/MANIFEST.json from the table below (single source of truth)."""
import json, os

ROOT = os.path.dirname(os.path.dirname(os.path.abspath(__file__)))

CHECKS = {
 "C09": dict(
  technique="runtime monitor: reference-model oracle (i128/f64) over boundary-lattice + random operand pairs at the GarnishNumber boundary and at the instruction boundary; overflow-check (mon) and release builds",
  text="Every pair of a 193-value i32 boundary lattice x all 12 binary operations, a 50-value float/mixed lattice (zeros, subnormals, 2^31/2^53 edges, huge, inf, NaN), unary operations, and random pairs are executed on the real SimpleNumber methods and through the arithmetic/bitwise instructions on both stores; each observed result is compared with an independent exact-or-unit reference. Held-on-observed, not a proof: operands outside lattice+sample are not explored.",
  note="trusts: Rust i128 / IEEE f64 arithmetic and libm powf/fmod as the reference; the two admissible-set choices recorded in DESIGN C09",
  design="DESIGN.md §5 C09"),
}

NOT_YET = "check not built yet in this round (work in progress; will be claimed once its monitor exists)"

def main():
    props = [json.loads(l) for l in open(os.path.join(ROOT, "properties.jsonl"))]
    checks = []
    na = []
    for p in props:
        pid = p["id"]
        c = CHECKS.get(pid)
        if not c:
            na.append({"property_id": pid, "reason": NOT_YET})
            continue
        checks.append({
            "property_id": pid,
            "quick_cmd": "./check %s --tier quick" % pid,
            "thorough_cmd": "./check %s --tier thorough" % pid,
            "evidence_file": "/verif/evidence/%s.json" % pid,
            "replay_cmd_template": "./check %s --replay {path}" % pid,
            "engine": "gmon",
            "level_claimed": {"category": "exploration", "text": c["text"], "design_ref": c["design"]},
            "level_note": c["note"],
            "technique": c["technique"],
        })
    hooks_commits = []
    hc = os.path.join(ROOT, "lib", "hook_commits.txt")
    if os.path.exists(hc):
        hooks_commits = [l.strip() for l in open(hc) if l.strip()]
    m = {
        "version": 1,
        "setup_cmd": "./check --setup",
        "hooks": {
            "guard": "cargo feature `verif_hooks` (crates garnish_lang_compiler, garnish_lang_simple_data); off by default",
            "enable": "the harness crate /verif/harness depends on /repo's crates by path with features=[\"verif_hooks\"]; every ./check rebuilds it from /repo's working tree (cargo build --offline, profiles `mon` = release+overflow-checks+debug-assertions and `release`)",
            "baseline_off_cmd": "python3 /verif/lib/baseline.py",
            "source_commits": hooks_commits,
            "add_only": True,
        },
        "engines": [{
            "name": "gmon",
            "path": "/verif/harness",
            "serves_properties": [c["property_id"] for c in checks],
            "kind_free_text": "dependency-free Rust harness: delegating GarnishData monitor (event log, shadow stacks, scripted host, budgets), reference models (numbers, values, lexer, parser, evaluator), bounded-exhaustive + random workloads on 16 threads; python3 driver ./check applies known_findings.json, writes evidence and replays",
        }],
        "checks": checks,
        "notes": "All verdicts are held-on-observed / violated(witness) / inconclusive(exit 2). Known findings: /verif/known_findings.json. Seeded breakages used to test the monitors: /verif/seeded/.",
        "not_applicable": na,
    }
    with open(os.path.join(ROOT, "MANIFEST.json"), "w") as f:
        json.dump(m, f, indent=1)
    print("MANIFEST.json: %d checks, %d not claimed" % (len(checks), len(na)))

if __name__ == "__main__":
    main()
