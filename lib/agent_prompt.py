#!/usr/bin/env python3
"""Print the prompt given to a fresh sub-agent that seeds a property-breaking change (no /verif content)."""
import json, sys
pid, wt = sys.argv[1], sys.argv[2]
L1, L2 = (sys.argv[3], sys.argv[4]) if len(sys.argv) > 4 else ("a", "b")
import glob, os
earlier = []
for d in sorted(glob.glob("/verif/seeded/%s-*/meta.json" % pid)):
    earlier.append("   - " + json.load(open(d))["needs_to_manifest"][:260])
earlier_txt = ("\n\nEarlier rounds of this exercise already produced changes that manifest under the following conditions; yours must use DIFFERENT mechanisms, code sites and triggering conditions than these:\n" + "\n".join(earlier)) if earlier and L1 != "a" else ""
p = [json.loads(l) for l in open('/verif/properties.jsonl') if json.loads(l)['id'] == pid][0]
print(f"""You are helping test a verification effort for the Rust project garnish-lang/garnish-core (a small scripting language: lexer, parser, bytecode builder, stack-based runtime over a pluggable data trait `GarnishData`, with two data implementations `SimpleGarnishData` and `BasicGarnishData`).

You have your own scratch git worktree of the repository at {wt} (detached HEAD). Work ONLY inside {wt}. Do not read or touch /verif or /repo. No network is available; always build with `--offline` (e.g. `cd {wt} && cargo test --workspace --offline`).

Here is a semantic property that the code base is supposed to satisfy:

  Title: {p['title']}
  Statement: {p['statement']}
  Scope: {p['quantifier']['text']}
  Relevant files: {', '.join(p['anchors']['files'])}

YOUR TASK: produce TWO different, realistic source changes to garnish-core (each a small patch of the kind a well-meaning refactor, optimisation or bug-fix attempt could introduce) that each BREAK this property, while the code still compiles and the existing test suite still passes exactly as before. Important requirements:

1. Each change must need something SPECIFIC to manifest: an unusual input, a particular combination of operand types/values, a multi-step sequence of operations, a boundary value, or two cooperating code sites that each look fine alone. Do NOT make changes that ordinary use or the simplest example would expose at once (e.g. do not break `1 + 2`).
2. The two changes must be in different places / break the property in different ways.{earlier_txt}
3. The existing test suite must still pass with each change applied alone. The suite has 39 tests that already fail at baseline; run `cd {wt} && cargo test --workspace --offline --no-fail-fast 2>&1 | grep -E "^test result|FAILED|failed" ` before changing anything to learn the baseline failures, and confirm that with your change exactly the same set of tests fails (no new failures). Do not edit or delete any existing test.
4. For each change write a demonstration: a NEW Rust integration test file placed at {wt}/tests/tests/seeded_demo_<{L1}|{L2}>.rs (the `tests` workspace crate `garnish_lang_tests` depends on `garnish_lang`, which re-exports everything: `garnish_lang::compiler::{{lex::lex, parse::parse, build::build}}`, `garnish_lang::simple::{{SimpleGarnishData, BasicGarnishData, NoOpCompanion, execute_current_instruction, SimpleRuntimeState, SimpleNumber, ops}}`, `garnish_lang::{{GarnishData, GarnishNumber, Instruction, GarnishDataType}}`; look at {wt}/tests/tests/runtime_impls.rs and {wt}/tests/src/main.rs for how programs are compiled and run). The demonstration test must FAIL with the change applied and PASS without it (verify both: use `git stash` or apply/revert the patch). Run it with `cargo test -p garnish_lang_tests --offline --test seeded_demo_{L1}`.
5. Deliver, in the directory {wt}/SEEDED/ : `{L1}.diff` and `{L2}.diff` (each produced with `git diff` containing ONLY the source change, not the demo test), `seeded_demo_{L1}.rs` and `seeded_demo_{L2}.rs` (copies of the demonstration tests), and `notes.md` describing for each change: what it breaks, what specific condition is needed for it to manifest, and the exact commands you ran to confirm (demo fails with change / passes without; suite unchanged).
6. When finished, leave the worktree with NO change applied to tracked source files (revert them), keeping only the SEEDED/ directory and the demo test files. Keep build output in {wt}/target (it will be deleted by the caller).

Be careful and concrete; verify everything by actually running it. Your final message should summarise the two changes in a few lines.""")
