#!/usr/bin/env python3
"""usage: try_seed.py <patch.diff> <PROP> [PROP...] [--tier quick|thorough]
Apply a seeded change to /repo, run the named checks, undo the change. Prints per-check verdict."""
import subprocess, sys, os
args = sys.argv[1:]
tier = "quick"
if "--tier" in args:
    i = args.index("--tier"); tier = args[i+1]; del args[i:i+2]
patch, props = args[0], args[1:]
st = subprocess.run(["git", "-C", "/repo", "status", "--porcelain", "--untracked-files=no"], capture_output=True, text=True).stdout
if st.strip():
    print("REFUSING: /repo has uncommitted changes:\n" + st); sys.exit(2)
r = subprocess.run(["git", "-C", "/repo", "apply", patch])
if r.returncode != 0:
    print("PATCH DOES NOT APPLY"); sys.exit(2)
try:
    for p in props:
        env = dict(os.environ); env["VERIF_EVIDENCE_DIR"] = "/tmp/seed_evidence"
        r = subprocess.run(["/verif/check", p, "--tier", tier], capture_output=True, text=True, cwd="/verif", env=env)
        v = [l for l in r.stdout.splitlines() if l.startswith("VIOLATION")]
        print("%s: exit=%d, %d VIOLATION lines" % (p, r.returncode, len(v)))
        for l in v[:4]:
            print("   " + l[:330])
        if r.returncode not in (0, 1):
            print(r.stdout[-1500:])
finally:
    subprocess.run(["git", "-C", "/repo", "checkout", "--", "."])
