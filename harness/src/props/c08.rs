//! C08 Undefined operand combinations yield unit, after offering them to the host.
//! The full finite matrix: instruction x ordered type pair x representatives x store x host mode.

use crate::mon::{defer_sentinel, Host, HostCall, Mon};
use crate::pipe::{exec_one, Fail};
use crate::pool::{reps, tname};
use crate::run::{run_cases, Acc, Ctx};
use crate::store::{Basic, Simple, Store};
use crate::util::{panic_site, Json};
use crate::value::{all_types, Mk, V};
use garnish_lang_traits::{GarnishDataType as T, Instruction as I};

#[derive(Clone, Copy, PartialEq, Debug)]
pub enum Def {
    /// the language defines a result for this cell: only the generic clauses are judged
    Defined,
    /// no result defined: must be offered to defer_op exactly once, unit if declined
    Undefined,
}

pub const BINARY: [I; 32] = [
    I::Add,
    I::Subtract,
    I::Multiply,
    I::Divide,
    I::IntegerDivide,
    I::Power,
    I::Remainder,
    I::BitwiseAnd,
    I::BitwiseOr,
    I::BitwiseXor,
    I::BitwiseShiftLeft,
    I::BitwiseShiftRight,
    I::Xor,
    I::TypeEqual,
    I::ApplyType,
    I::Equal,
    I::NotEqual,
    I::LessThan,
    I::LessThanOrEqual,
    I::GreaterThan,
    I::GreaterThanOrEqual,
    I::MakePair,
    I::Access,
    I::MakeRange,
    I::MakeStartExclusiveRange,
    I::MakeEndExclusiveRange,
    I::MakeExclusiveRange,
    I::Concat,
    I::PartialApply,
    I::Apply,
    I::MakeList,
    I::Invalid, // placeholder slot, skipped
];

pub const UNARY: [I; 10] = [
    I::Opposite,
    I::AbsoluteValue,
    I::BitwiseNot,
    I::Not,
    I::Tis,
    I::TypeOf,
    I::AccessLeftInternal,
    I::AccessRightInternal,
    I::AccessLengthInternal,
    I::EmptyApply,
];

/// Appendix C of DESIGN.md, transcribed once from the explicit match arms of the runtime.
pub fn definedness(ins: I, l: T, r: T, lv: &V, rv: &V) -> Def {
    use Def::*;
    let d = |b: bool| if b { Defined } else { Undefined };
    match ins {
        I::Add | I::Subtract | I::Multiply | I::Divide | I::IntegerDivide | I::Power | I::Remainder | I::BitwiseAnd | I::BitwiseOr | I::BitwiseXor | I::BitwiseShiftLeft | I::BitwiseShiftRight => {
            d(l == T::Number && r == T::Number)
        }
        I::MakeRange | I::MakeStartExclusiveRange | I::MakeEndExclusiveRange | I::MakeExclusiveRange => d(l == T::Number && r == T::Number),
        I::Opposite | I::AbsoluteValue | I::BitwiseNot => d(l == T::Number),
        I::AccessLeftInternal | I::AccessRightInternal => d(matches!(l, T::Pair | T::Range | T::Slice | T::Concatenation)),
        I::AccessLengthInternal => d(matches!(l, T::Pair | T::List | T::CharList | T::ByteList | T::Range | T::Slice | T::Concatenation)),
        I::Access => {
            let merge = matches!(
                (l, r),
                (T::Symbol, T::Symbol)
                    | (T::Symbol, T::SymbolList)
                    | (T::SymbolList, T::Symbol)
                    | (T::SymbolList, T::SymbolList)
                    | (T::SymbolList, T::Number)
                    | (T::Number, T::SymbolList)
                    | (T::Symbol, T::Number)
                    | (T::Number, T::Symbol)
            );
            let container = matches!(l, T::Pair | T::List | T::CharList | T::ByteList | T::Range | T::Concatenation | T::Slice);
            let by_number = container && r == T::Number;
            // text, bytes and ranges have no keyed lookup: those cells have no defined result
            // a slice looks keys up in what it slices: only lists and concatenations hold keyed items
            let sliced_keyed = match lv {
                V::Slice(inner, _) => matches!(**inner, V::List(_) | V::Concat(..)),
                _ => true,
            };
            let by_symbol = matches!(l, T::Pair | T::List | T::Concatenation | T::Slice) && r == T::Symbol && sliced_keyed;
            d(merge || by_number || by_symbol)
        }
        I::Apply => d(matches!(
            (l, r),
            (T::Expression, _)
                | (T::External, _)
                | (T::Partial, _)
                | (T::Symbol, T::SymbolList)
                | (T::SymbolList, T::Symbol)
                | (T::SymbolList, T::SymbolList)
                | (T::Range, T::Range)
                | (T::Slice, T::Range)
                | (T::SymbolList, T::Number)
                | (T::List, T::Number)
                | (T::Pair, T::Number)
                | (T::Pair, T::Symbol)
                | (T::List, T::Symbol)
                | (T::List, T::SymbolList)
                | (T::List, T::Range)
                | (T::Concatenation, T::Range)
                | (T::CharList, T::Range)
                | (T::ByteList, T::Range)
                | (T::SymbolList, T::Range)
        )),
        I::EmptyApply => d(matches!(l, T::Expression | T::External | T::Partial)),
        I::ApplyType => {
            let r = match rv {
                V::Type(t) => *t,
                _ => r,
            };
            let ok = l == r
                || matches!((l, r), (T::CharList, T::Number))
                || matches!(r, T::CharList | T::ByteList | T::Symbol | T::True | T::False)
                || matches!((l, r), (T::Number, T::Char) | (T::Number, T::Byte) | (T::Char, T::Number) | (T::Char, T::Byte) | (T::Byte, T::Number) | (T::Byte, T::Char))
                || matches!((l, r), (T::CharList, T::Char))
                || (matches!(l, T::SymbolList | T::Range | T::CharList | T::ByteList | T::Concatenation | T::Slice) && r == T::List)
                || l == T::Unit;
            d(ok)
        }
        // total operations
        _ => Defined,
    }
}

fn arity(ins: I) -> usize {
    if UNARY.contains(&ins) { 1 } else { 2 }
}

#[derive(Clone, Copy, PartialEq, Debug)]
enum HostKind {
    Absent,
    Declining,
    Accepting,
}

fn host_of(k: HostKind) -> Host {
    match k {
        HostKind::Absent => Host::none(),
        HostKind::Declining => Host::declining(),
        HostKind::Accepting => Host::accepting(),
    }
}

fn check_cell<D: Store + Mk>(ins: I, a: &V, b: Option<&V>, hk: HostKind, acc: &mut Acc) {
    acc.evals += 1;
    let lt = a.type_of();
    let (rt, rvv) = match b {
        Some(v) => (v.type_of(), v.clone()),
        None => (T::Unit, V::Unit),
    };
    let def = definedness(ins, lt, rt, a, &rvv);
    let cell = if arity(ins) == 1 { format!("{:?}({})", ins, tname(lt)) } else { format!("{:?}({},{})", ins, tname(lt), tname(rt)) };
    acc.seen("cells", cell.clone());
    if def == Def::Undefined {
        acc.seen("undefined_cells", cell.clone());
    }
    let mut m: Mon<D> = Mon::<D>::fresh().with_host(host_of(hk));
    crate::props::prep_expr0(&mut m);
    let operands: Vec<V> = match b {
        Some(v) => vec![a.clone(), v.clone()],
        None => vec![a.clone()],
    };
    let data = match ins {
        I::MakeList => Some(2),
        _ => None,
    };
    let payload = || {
        Json::obj()
            .with("store", Json::s(D::NAME))
            .with("instruction", Json::s(format!("{:?}", ins)))
            .with("left", a.json())
            .with("right", b.map(|x| x.json()).unwrap_or(Json::Null))
            .with("host", Json::s(format!("{:?}", hk)))
            .with("cell_is", Json::s(format!("{:?}", def)))
    };
    let one = match exec_one(&mut m, ins, data, &operands) {
        Ok(o) => o,
        Err(e) => {
            acc.count("setup_failed");
            acc.seen("setup_failures", format!("{}: {}", cell, e.chars().take(50).collect::<String>()));
            return;
        }
    };
    let defers: Vec<&HostCall> = m.calls.iter().filter(|c| matches!(c, HostCall::Defer { .. })).collect();
    acc.add("defer_calls_observed", defers.len() as u64);
    let who = format!("[{} host={:?}] {} on {}{}", D::NAME, hk, format!("{:?}", ins), a.show(), b.map(|x| format!(" , {}", x.show())).unwrap_or_default());

    // ---- generic clauses (every cell)
    if defers.len() > 1 {
        acc.violation(format!("defer-called-{}-times|{}", defers.len(), cell), format!("{}: defer_op called {} times", who, defers.len()), payload());
    }
    match &one.outcome {
        Err(Fail::Err(_, e)) if e.starts_with("UnsupportedOpTypes") => {
            acc.violation(
                format!("unsupported-escaped|{}", cell),
                format!("{}: the internal 'defer this' error (UnsupportedOpTypes) escaped the step instead of being offered to defer_op", who),
                payload(),
            );
            return;
        }
        Err(Fail::Err(_, e)) => {
            if def == Def::Undefined {
                acc.violation(format!("err-on-undefined|{}", cell), format!("{}: failed with {} (no result is defined: must defer, then unit)", who, e), payload());
            } else {
                acc.count("defined_cell_err_not_judged");
                acc.seen("defined_cell_errs", format!("{} [{}]: {}", cell, D::NAME, e.chars().take(70).collect::<String>()));
            }
            return;
        }
        Err(Fail::Panic(_, msg, loc)) => {
            if def == Def::Undefined {
                acc.violation(format!("panic-on-undefined|{}|{}", panic_site(loc), cell), format!("{}: panicked: {} at {}", who, msg, loc), payload());
            } else {
                acc.count("defined_cell_panic_not_judged");
                acc.seen("defined_cell_panics", format!("{} [{}]: {} at {}", cell, D::NAME, msg.chars().take(60).collect::<String>(), panic_site(loc)));
            }
            return;
        }
        Ok(_) => {}
    }
    // exactly one result replaces the operands (calls that enter an expression are the exception:
    // operands are consumed, a frame and an input value are pushed, the result arrives later)
    let enters_expression = matches!(ins, I::Apply | I::EmptyApply) && m.frames.len() == 1;
    let expect_depth = if enters_expression { one.depth_before - arity(ins) } else { one.depth_before - arity(ins) + 1 };
    if one.depth_after != expect_depth {
        acc.violation(
            format!("result-count|{}:{}->{}", cell, one.depth_before, one.depth_after),
            format!("{}: operand depth {} -> {} (expected {})", who, one.depth_before, one.depth_after, expect_depth),
            payload(),
        );
        return;
    }
    if !m.shadow_errors.is_empty() {
        acc.violation(format!("store-shadow|{}", cell), format!("{}: {}", who, m.shadow_errors[0]), payload());
        return;
    }
    let top = match (&one.top, enters_expression) {
        (_, true) => None,
        (Some(Ok(v)), _) => Some(v.clone()),
        (other, _) => {
            acc.violation(format!("unreadable|{}", cell), format!("{}: result unreadable: {:?}", who, other), payload());
            return;
        }
    };
    if let Some(HostCall::Defer { answered, .. }) = defers.first().map(|c| (*c).clone()).as_ref() {
        if let Some(v) = &top {
            if *answered {
                let s = defer_sentinel(ins);
                if *v != s {
                    acc.violation(format!("host-result-not-used|{}", cell), format!("{}: host accepted and pushed {} but the result is {}", who, s.show(), v.show()), payload());
                }
            } else if *v != V::Unit {
                acc.violation(format!("not-unit-after-decline|{}", cell), format!("{}: host declined but the result is {} (expected unit)", who, v.show()), payload());
            }
        }
    }

    // ---- undefined cells: offered exactly once, in source order
    if def == Def::Undefined {
        acc.nontrivial += 1;
        if defers.is_empty() {
            acc.violation(
                format!("not-offered|{}", cell),
                format!("{}: no result is defined for this combination, yet defer_op was never called (result {})", who, top.map(|v| v.show()).unwrap_or_default()),
                payload(),
            );
            return;
        }
        if let HostCall::Defer { op, lt: dlt, l, rt: drt, r, .. } = defers[0] {
            let la = one.operand_addrs[0];
            let mut bad = vec![];
            if *op != ins {
                bad.push(format!("operation {:?}", op));
            }
            if *dlt != lt || *l != la {
                bad.push(format!("left ({:?},{}) instead of ({:?},{})", dlt, l, lt, la));
            }
            if arity(ins) == 2 {
                let ra = one.operand_addrs[1];
                let resolved = match &rvv {
                    V::Type(t) if ins == I::ApplyType => *t,
                    _ => rt,
                };
                if (*drt != rt && *drt != resolved) || *r != ra {
                    bad.push(format!("right ({:?},{}) instead of ({:?},{})", drt, r, rt, ra));
                }
            } else if *drt != T::Unit {
                bad.push(format!("right type {:?} instead of Unit for a unary operation", drt));
            }
            if !bad.is_empty() {
                acc.violation(format!("wrong-defer-args|{}", cell), format!("{}: defer_op called with {}", who, bad.join("; ")), payload());
            }
        }
    } else if !defers.is_empty() {
        // a defined cell that nevertheless defers: table and implementation disagree
        acc.violation(format!("deferred-defined|{}", cell), format!("{}: the pinned table lists a defined result but defer_op was called", who), payload());
    }
}

pub fn run(ctx: &Ctx) -> (Acc, String, bool) {
    let rich = !ctx.quick();
    let mut vals: Vec<V> = vec![];
    for t in all_types() {
        vals.extend(reps(t, rich));
    }
    // Type values naming each type as right operands of casts
    for t in all_types() {
        vals.push(V::Type(t));
    }
    let n = vals.len() as u64;
    let bins: Vec<I> = BINARY.iter().cloned().filter(|i| *i != I::Invalid).collect();
    let pair_total = n * n;
    let total = pair_total + n;
    let hosts = [HostKind::Absent, HostKind::Declining, HostKind::Accepting];
    let acc = run_cases(ctx, total, |i, acc| {
        if i < pair_total {
            let (a, b) = (&vals[(i / n) as usize], &vals[(i % n) as usize]);
            for ins in &bins {
                for hk in hosts {
                    check_cell::<Simple>(*ins, a, Some(b), hk, acc);
                    check_cell::<Basic>(*ins, a, Some(b), hk, acc);
                }
            }
            if i % 1777 == 0 {
                acc.sample(Json::s(format!("all {} binary instructions x 3 hosts x 2 stores on ({} , {})", bins.len(), a.show(), b.show())));
            }
        } else {
            let a = &vals[(i - pair_total) as usize];
            for ins in UNARY {
                for hk in hosts {
                    check_cell::<Simple>(ins, a, None, hk, acc);
                    check_cell::<Basic>(ins, a, None, hk, acc);
                }
            }
        }
    });
    let rule = format!(
        "complete matrix: {} binary + {} unary instructions x every ordered pair (single) of {} representative values covering all 19 value types (empty/singleton/typical/nested{}; plus a Type value per type) x 2 stores x host {{absent, declining, accepting}}. distinct_nontrivial = executions of cells in the undefined set (those are judged against the defer-exactly-once rule); every cell is judged against the generic clauses.",
        bins.len(),
        UNARY.len(),
        n,
        if rich { ", rich set" } else { "" }
    );
    (acc, rule, true)
}

pub const ASSUMPTIONS: &[&str] = &["definedness table (DESIGN Appendix C) transcribed once from the runtime's explicit match arms; it is the specification of which cells have a defined result", "defined cells are judged only by the generic clauses (at most one defer, unit after decline, host result used, one result, UnsupportedOpTypes never escapes)"];
