//! Registry of per-property checks.
pub mod c01;
pub mod c02;
pub mod c03;
pub mod c04;
pub mod c05;
pub mod c06;
pub mod c07;
pub mod c08;
pub mod c09;
pub mod c10;
pub mod c11;
pub mod c12;
pub mod c13;
pub mod c14;
pub mod c15;
pub mod c16;
pub mod c17;
pub mod c18;
pub mod c19;
pub mod c20;
pub mod sweep;

use crate::run::{Acc, Ctx};

/// (accumulated observations, coverage rule text, exhaustive?)
pub type CheckOut = (Acc, String, bool);

macro_rules! registry {
    ($( $id:literal => $m:ident ),* $(,)?) => {
        pub fn dispatch(ctx: &Ctx) -> Option<CheckOut> {
            match ctx.prop.as_str() {
                $( $id => Some($m::run(ctx)), )*
                _ => None,
            }
        }
        pub fn assumptions(prop: &str) -> Vec<&'static str> {
            match prop {
                $( $id => $m::ASSUMPTIONS.to_vec(), )*
                _ => vec![],
            }
        }
    };
}

registry! {
    "C01" => c01,
    "C02" => c02,
    "C03" => c03,
    "C04" => c04,
    "C05" => c05,
    "C06" => c06,
    "C07" => c07,
    "C08" => c08,
    "C09" => c09,
    "C10" => c10,
    "C11" => c11,
    "C12" => c12,
    "C13" => c13,
    "C14" => c14,
    "C15" => c15,
    "C16" => c16,
    "C17" => c17,
    "C18" => c18,
    "C19" => c19,
    "C20" => c20,
}

use crate::mon::Mon;
use crate::store::Store;
use crate::value::Mk;
use garnish_lang_traits::{GarnishData, Instruction};

/// give a fresh monitored store a trivial expression at jump-table index 0 (body: `$`), so that
/// `V::Expr(0)` operands denote something that can be applied
pub fn prep_expr0<D: Store + Mk>(m: &mut Mon<D>) {
    let at = m.get_instruction_len();
    let _ = m.push_instruction(Instruction::PutValue, None);
    let _ = m.push_instruction(Instruction::EndExpression, None);
    let _ = m.push_to_jump_table(at);
}
