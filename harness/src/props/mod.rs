pub mod c08;
pub mod c09;
pub mod c11;
pub mod c12;
pub mod c15;
pub mod c16;

use crate::run::{Acc, Ctx};
use crate::util::Json;

/// (accumulated observations, coverage rule text, exhaustive?)
pub type CheckOut = (Acc, String, bool);

pub fn dispatch(ctx: &Ctx) -> Option<CheckOut> {
    Some(match ctx.prop.as_str() {
        "C09" => c09::run(ctx),
        "C12" => c12::run(ctx),
        "C15" => c15::run(ctx),
        "C16" => c16::run(ctx),
        "C08" => c08::run(ctx),
        "C11" => c11::run(ctx),
        _ => return None,
    })
}


pub fn assumptions(prop: &str) -> Vec<&'static str> {
    match prop {
        "C12" => vec!["natural order: numeric (i32 exactly embedded in f64), code-point order for chars, lexicographic by element with the shorter prefix first", "slice/slice pairs are not judged against an order (the property does not settle them); only absence of failure is checked"],
        "C11" => vec!["reference: structural equality on V with list/concatenation flattening exactly as both stores' concatenation iterators splice (lists directly under a concatenation are spliced, nested lists are items)", "NaN excluded (reflexivity is not demanded of NaN)", "symbol lists hold symbols only (SimpleGarnishData cannot store numeric parts)"],
        "C08" => vec!["definedness table (DESIGN Appendix C) transcribed once from the runtime's explicit match arms; it is the specification of which cells have a defined result", "defined cells are judged only by the generic clauses (at most one defer, unit after decline, host result used, one result, UnsupportedOpTypes never escapes)"],
        "C16" => vec!["symbol keys are distinct within a value (the property quantifies over sets of distinct symbols)", "apply on a concatenation is not treated as a lookup (not a defined combination); fractional indexes are outside the property"],
        "C15" => vec!["model: independent growable tables (plain vectors) + stacks where pop_frame discards the operands pushed after the matching push_frame", "unstructured 64-bit hash collisions of the intern cache are out of reach; only structural aliasing of the hashed byte stream is generated"],
        "C09" => vec![
            "reference arithmetic: i128 for integers, IEEE f64 (Rust core) for floats incl. powf/fmod",
            "shift that moves bits out of 32 bits may answer unit or the two's-complement pattern; float // may answer integer or integral float (DESIGN C09)",
        ],
        _ => vec![],
    }
}

use crate::mon::Mon;
use crate::store::Store;
use crate::value::Mk;
use garnish_lang_traits::{GarnishData, Instruction};

/// give a fresh monitored store a trivial expression at jump-table index 0 (body: `$`), so that
/// `V::Expr(0)` operands denote something that can be applied
pub fn prep_expr0<D: Store + Mk>(m: &mut Mon<D>) {
    let at = m.get_instruction_len();
    let _ = m.push_instruction(Instruction::PutValue, None);
    let _ = m.push_instruction(Instruction::EndExpression, None);
    let _ = m.push_to_jump_table(at);
}
