pub mod c09;

use crate::run::{Acc, Ctx};
use crate::util::Json;

/// (accumulated observations, coverage rule text, exhaustive?)
pub type CheckOut = (Acc, String, bool);

pub fn dispatch(ctx: &Ctx) -> Option<CheckOut> {
    Some(match ctx.prop.as_str() {
        "C09" => c09::run(ctx),
        _ => return None,
    })
}

pub fn replay(prop: &str, payload: &Json) -> Option<String> {
    Some(match prop {
        "C09" => c09::replay(payload),
        _ => return None,
    })
}

pub fn assumptions(prop: &str) -> Vec<&'static str> {
    match prop {
        "C09" => vec![
            "reference arithmetic: i128 for integers, IEEE f64 (Rust core) for floats incl. powf/fmod",
            "shift that moves bits out of 32 bits may answer unit or the two's-complement pattern; float // may answer integer or integral float (DESIGN C09)",
        ],
        _ => vec![],
    }
}
