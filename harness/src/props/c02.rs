//! C02 Precedence, associativity and grouping follow the operator table.

use crate::pipe::{lex_g, parse_g, Fail};
use crate::reflex::{reflex, RLex};
use crate::refparse::{actual_tree, refparse, table, Kind, Tree};
use crate::run::{run_cases, Acc, Ctx};
use crate::util::{fnv_str, panic_site, Json, Rng};
use garnish_lang_compiler::lex::TokenType as T;

const ATOMS: [&str; 5] = ["5", "x", "\"a\"", ":s", "$"];
pub const BIN: [&str; 50] = [
    ".", "~#", "**", "*", "/", "//", "%", "+", "-", "<<", ">>", "&", "^", "|", "`f`", "..", ">..", "..<", ">..<", "=", " ", "~", "<>", "<", "<=", ">", ">=", "#=", "!=", "==", "&&", "^^", "||", "<~", "~>", "?>", "!>", "|>", ",", ";", "\n\n",
    // second spellings of busy priority levels, to see same-level pairs
    "-", "/", ">>", "!=", "~>", "!>", "..<", ">=", "%",
];
pub const PRE: [&str; 9] = ["_.", "#", "++", "--", "!", "f`", "!!", "??", "^~"];
pub const SUF: [&str; 4] = ["~~", "._", ".|", "`f"];

/// join items with single spaces, then drop every space whose removal keeps the token sequence
/// (a space that stands for the implicit list operator is an item of its own and stays)
fn tight(items: &[String]) -> String {
    let spaced = items.join(" ");
    let toks = |s: &str| -> Option<Vec<(T, String)>> {
        match reflex(s) {
            RLex::Tokens(t) => Some(t.into_iter().filter(|x| x.ty != T::Whitespace).map(|x| (x.ty, x.text)).collect()),
            _ => None,
        }
    };
    let want = match toks(&spaced) {
        Some(w) => w,
        None => return spaced,
    };
    let mut out = String::new();
    for (i, it) in items.iter().enumerate() {
        if i > 0 {
            let list_gap = it == " " || items[i - 1] == " ";
            // try without the space
            let cand = format!("{}{}{}", out, it, items[i + 1..].iter().map(|x| format!(" {}", x)).collect::<String>());
            let operand_pair = {
                // never glue two operand-ish items together: that is a different program
                let a = items[i - 1].chars().last().unwrap_or(' ');
                let b = it.chars().next().unwrap_or(' ');
                (a.is_alphanumeric() || "\")}$".contains(a)) && (b.is_alphanumeric() || "\"({$:_".contains(b))
            };
            if !list_gap && !operand_pair && toks(&cand).as_ref() == Some(&want) {
                out.push_str(it);
                continue;
            }
            out.push(' ');
        }
        if it != " " {
            out.push_str(it);
        }
    }
    out
}

fn spaced(items: &[String]) -> String {
    let mut out = String::new();
    for (i, it) in items.iter().enumerate() {
        if it == " " {
            continue;
        }
        if i > 0 {
            out.push(' ');
        }
        out.push_str(it);
    }
    out
}

fn prio_of(op: &str) -> usize {
    if op == " " {
        return 220;
    }
    match reflex(op) {
        RLex::Tokens(t) if !t.is_empty() => table(t[0].ty).1,
        _ => 0,
    }
}

pub fn check(src: &str, form: &str, ops: &[&str], acc: &mut Acc) {
    acc.evals += 1;
    let payload = || Json::obj().with("source", Json::s(src)).with("form", Json::s(form));
    let mut levels: Vec<usize> = ops.iter().map(|o| prio_of(o)).collect();
    levels.sort();
    let key = format!("{}|levels:{}", form, levels.iter().map(|l| l.to_string()).collect::<Vec<_>>().join(","));
    let toks = match lex_g(src) {
        Ok(t) => t,
        Err(f) => {
            acc.count("lex_failed");
            acc.seen("lex_failures", format!("{}: {}", src.chars().take(30).collect::<String>(), f.show().chars().take(60).collect::<String>()));
            return;
        }
    };
    let want = match refparse(&toks) {
        Some(w) => w,
        None => {
            acc.count("outside_reference_grammar");
            return;
        }
    };
    let parsed = match parse_g(&toks) {
        Ok(p) => p,
        Err(Fail::Panic(_, msg, loc)) => {
            acc.violation(format!("panic|{}|{}", panic_site(&loc), key), format!("parse({:?}) panicked: {} at {}", src, msg, loc), payload());
            return;
        }
        Err(Fail::Err(_, e)) => {
            acc.count("rejected");
            acc.seen("rejections", format!("{} :: {}", key, e.chars().take(70).collect::<String>()));
            return;
        }
    };
    let got = match actual_tree(&parsed) {
        Ok(t) => t,
        Err(e) => {
            acc.violation(format!("malformed-tree|{}", key), format!("parse({:?}) returned a malformed tree: {}", src, e), payload());
            return;
        }
    };
    acc.count("trees_compared");
    if got != want {
        acc.violation(
            format!("wrong-tree|{}", key),
            format!("parse({:?}) = {} but the operator table dictates {}", src, got.sexpr(), want.sexpr()),
            payload().with("got", Json::s(got.sexpr())).with("want", Json::s(want.sexpr())),
        );
        return;
    }
    // metamorphic: writing out the parentheses the table implies changes nothing but group nodes
    let full = want.paren();
    if let Ok(t2) = lex_g(&full) {
        match parse_g(&t2) {
            Ok(p2) => match actual_tree(&p2) {
                Ok(tr) => {
                    acc.count("parenthesised_compared");
                    if tr.strip_groups() != want.strip_groups() {
                        acc.violation(
                            format!("parenthesised-differs|{}", key),
                            format!("{:?} and its fully parenthesised form {:?} parse to different trees: {} vs {}", src, full, want.strip_groups().sexpr(), tr.strip_groups().sexpr()),
                            payload().with("parenthesised", Json::s(full.clone())),
                        );
                    }
                }
                Err(e) => acc.violation(format!("parenthesised-malformed|{}", key), format!("{:?}: {}", full, e), payload()),
            },
            Err(Fail::Err(_, e)) => {
                acc.count("parenthesised_rejected");
                acc.seen("parenthesised_rejections", format!("{} :: {}", key, e.chars().take(60).collect::<String>()));
            }
            Err(Fail::Panic(_, msg, loc)) => acc.violation(format!("panic|{}|paren|{}", panic_site(&loc), key), format!("parse({:?}) panicked: {}", full, msg), payload()),
        }
    }
}

/// `with_block` is `plain` plus one side-effect block after an atom: its real tree, blocks removed, must be the
/// reference tree of `plain`
fn check_with_block(plain: &str, with_block: &str, acc: &mut Acc) {
    let want = match lex_g(plain).ok().and_then(|t| refparse(&t)) {
        Some(w) => w,
        None => return,
    };
    // only where the block-free text is accepted with the dictated tree (anything else is reported by `check`)
    match lex_g(plain).ok().and_then(|t| parse_g(&t).ok()).and_then(|p| actual_tree(&p).ok()) {
        Some(t) if t == want => {}
        _ => return,
    }
    acc.evals += 1;
    let payload = || Json::obj().with("source", Json::s(with_block)).with("block_free", Json::s(plain));
    let toks = match lex_g(with_block) {
        Ok(t) => t,
        Err(_) => return,
    };
    match parse_g(&toks) {
        Ok(p) => match actual_tree(&p) {
            Ok(t) => {
                acc.count("trees_with_block_compared");
                let stripped = crate::props::c18::strip_effects(&crate::props::c18::norm_effects(&t));
                if stripped.strip_groups() != want.strip_groups() {
                    acc.violation(
                        "wrong-tree|with-side-effect-block".to_string(),
                        format!("parse({:?}) = {} which, blocks removed, is not the tree the table dictates for {:?}: {}", with_block, t.sexpr(), plain, want.sexpr()),
                        payload(),
                    );
                }
            }
            Err(e) => acc.violation("malformed-tree|with-side-effect-block".to_string(), format!("parse({:?}) returned a malformed tree: {}", with_block, e), payload()),
        },
        Err(Fail::Panic(_, msg, loc)) => acc.violation(format!("panic|{}|with-side-effect-block", panic_site(&loc)), format!("parse({:?}) panicked: {} at {}", with_block, msg, loc), payload()),
        Err(Fail::Err(_, e)) => {
            acc.count("with_block_rejected");
            acc.seen("with_block_rejections", e.chars().take(70).collect::<String>());
        }
    }
}

fn run_items(items: Vec<String>, form: &str, ops: &[&str], acc: &mut Acc) {
    let a = spaced(&items);
    check(&a, form, ops, acc);
    let b = tight(&items);
    if b != a {
        check(&b, form, ops, acc);
    }
}

pub fn run(ctx: &Ctx) -> (Acc, String, bool) {
    let nb = BIN.len() as u64;
    let (np, ns) = (PRE.len() as u64, SUF.len() as u64);
    // pair forms
    let f1 = nb * nb; // a B1 b B2 c
    let f2 = np * nb; // P a B b
    let f3 = nb * np; // a B P b
    let f4 = ns * nb; // a S B b
    let f5 = nb * ns; // a B b S
    let f6 = np * ns; // P a S
    let f7 = np * np; // P1 P2 a
    let f8 = ns * ns; // a S1 S2
    let pair_total = f1 + f2 + f3 + f4 + f5 + f6 + f7 + f8;
    let triple_total = if ctx.quick() { nb * nb * nb / 10 } else { nb * nb * nb };
    let mixed_triples = (np + ns) * nb * nb; // unary around the middle operand
    let random_total: u64 = ctx.pick(400_000, 20_000_000);
    let seed = ctx.seed;
    let at = |i: usize| ATOMS[i % ATOMS.len()].to_string();
    let acc = run_cases(ctx, pair_total + triple_total + mixed_triples + random_total, |i, acc| {
        let s = |x: &str| x.to_string();
        if i < pair_total {
            acc.nontrivial += 1;
            let mut j = i;
            if j < f1 {
                let (b1, b2) = (BIN[(j / nb) as usize], BIN[(j % nb) as usize]);
                run_items(vec![at(0), s(b1), at(1), s(b2), at(2)], "a B b B c", &[b1, b2], acc);
                return;
            }
            j -= f1;
            if j < f2 {
                let (p, b) = (PRE[(j / nb) as usize], BIN[(j % nb) as usize]);
                run_items(vec![s(p), at(0), s(b), at(1)], "P a B b", &[p, b], acc);
                return;
            }
            j -= f2;
            if j < f3 {
                let (b, p) = (BIN[(j / np) as usize], PRE[(j % np) as usize]);
                run_items(vec![at(0), s(b), s(p), at(1)], "a B P b", &[b, p], acc);
                return;
            }
            j -= f3;
            if j < f4 {
                let (su, b) = (SUF[(j / nb) as usize], BIN[(j % nb) as usize]);
                run_items(vec![at(0), s(su), s(b), at(1)], "a S B b", &[su, b], acc);
                return;
            }
            j -= f4;
            if j < f5 {
                let (b, su) = (BIN[(j / ns) as usize], SUF[(j % ns) as usize]);
                run_items(vec![at(0), s(b), at(1), s(su)], "a B b S", &[b, su], acc);
                return;
            }
            j -= f5;
            if j < f6 {
                let (p, su) = (PRE[(j / ns) as usize], SUF[(j % ns) as usize]);
                run_items(vec![s(p), at(0), s(su)], "P a S", &[p, su], acc);
                return;
            }
            j -= f6;
            if j < f7 {
                let (p1, p2) = (PRE[(j / np) as usize], PRE[(j % np) as usize]);
                run_items(vec![s(p1), s(p2), at(0)], "P P a", &[p1, p2], acc);
                return;
            }
            j -= f7;
            let (s1, s2) = (SUF[(j / ns) as usize], SUF[(j % ns) as usize]);
            run_items(vec![at(0), s(s1), s(s2)], "a S S", &[s1, s2], acc);
        } else if i < pair_total + triple_total {
            let mut j = i - pair_total;
            if ctx.quick() {
                // every tenth triple, spread by a multiplicative step
                j = (j * 10 + (seed % 10)) % (nb * nb * nb);
            }
            let (b1, b2, b3) = (BIN[(j / (nb * nb)) as usize], BIN[((j / nb) % nb) as usize], BIN[(j % nb) as usize]);
            acc.nontrivial += 1;
            run_items(vec![at(0), s(b1), at(1), s(b2), at(2), s(b3), at(3)], "a B b B c B d", &[b1, b2, b3], acc);
            if j % 20_011 == 0 {
                acc.sample(Json::s(format!("triple {:?} {:?} {:?}", b1, b2, b3)));
            }
        } else if i < pair_total + triple_total + mixed_triples {
            let j = i - pair_total - triple_total;
            let u = (j / (nb * nb)) as usize;
            let (b1, b2) = (BIN[((j / nb) % nb) as usize], BIN[(j % nb) as usize]);
            acc.nontrivial += 1;
            if u < PRE.len() {
                run_items(vec![at(0), s(b1), s(PRE[u]), at(1), s(b2), at(2)], "a B P b B c", &[b1, PRE[u], b2], acc);
            } else {
                let su = SUF[u - PRE.len()];
                run_items(vec![at(0), s(b1), at(1), s(su), s(b2), at(2)], "a B b S B c", &[b1, su, b2], acc);
            }
        } else {
            // random deeper expressions with groups and nested expressions
            let mut r = Rng::for_case(seed, i);
            fn genx(r: &mut Rng, depth: usize, out: &mut Vec<String>) {
                if depth == 0 || r.chance(1, 4) {
                    out.push((*r.pick(&ATOMS)).to_string());
                    return;
                }
                match r.below(7) {
                    0 => {
                        out.push("(".into());
                        genx(r, depth - 1, out);
                        out.push(")".into());
                    }
                    1 => {
                        out.push("{".into());
                        genx(r, depth - 1, out);
                        out.push("}".into());
                    }
                    2 => {
                        out.push((*r.pick(&PRE)).to_string());
                        genx(r, depth - 1, out);
                    }
                    3 => {
                        genx(r, depth - 1, out);
                        out.push((*r.pick(&SUF)).to_string());
                    }
                    _ => {
                        genx(r, depth - 1, out);
                        // no blank lines inside groups (they are white space there)
                        let b = loop {
                            let b = *r.pick(&BIN);
                            if b != "\n\n" {
                                break b;
                            }
                        };
                        out.push(b.to_string());
                        genx(r, depth - 1, out);
                    }
                }
            }
            let mut items = vec![];
            genx(&mut r, ctx.pick(4, 6), &mut items);
            let src = if r.chance(1, 2) { spaced(&items) } else { tight(&items) };
            acc.distinct.insert(fnv_str(&src));
            check(&src, "random", &[], acc);
            // the same expression with a side-effect block after one of its atoms: apart from the block the tree is
            // the one the table dictates for the block-free text
            if r.chance(1, 3) {
                let atoms: Vec<usize> = (0..items.len())
                    .filter(|k| ATOMS.contains(&items[*k].as_str()) && items.get(k + 1).map(|n| !PRE.contains(&n.as_str()) && n != "(" && n != "{").unwrap_or(true))
                    .collect();
                if !atoms.is_empty() {
                    let k = atoms[r.below(atoms.len())];
                    let mut with_block = items.clone();
                    with_block[k] = format!("{} [{}]", items[k], *r.pick(&["5", "1 + 2", "x"]));
                    check_with_block(&spaced(&items), &spaced(&with_block), acc);
                }
            }
            if i % 10_007 == 0 {
                acc.sample(Json::s(format!("random expression {:?}", src)));
            }
        }
    });
    let rule = format!(
        "exhaustive: every ordered pair of {} binary forms (all binary operator spellings, implicit space list, comma, conditionals, else, apply forms, infix identifier, separators), {} prefix and {} suffix operators in 8 pair shapes; {} triples a B b B c B d {}; every unary operator around the middle operand of every binary pair; each in a spaced and a tight layout; plus {} random expressions (depth <= {}) with groups and nested expressions, a third of them once more with a side-effect block after one atom (tree modulo the block). Oracles: tree equality with the reference precedence parser, and equality with the tree of the fully parenthesised text modulo group nodes.",
        BIN.len(),
        PRE.len(),
        SUF.len(),
        triple_total,
        if ctx.quick() { "(every tenth)" } else { "(all)" },
        random_total,
        ctx.pick(4, 6)
    );
    (acc, rule, false)
}

pub const ASSUMPTIONS: &[&str] = &[
    "pinned operator table (DESIGN Appendix D; smaller number binds tighter; left-to-right except pair; a prefix operator's operand takes strictly tighter operators only; a suffix operation is a complete operand)",
    "differences between the table and docs/src/precedence.md are not judged (monitoring cannot say which document is the language)",
    "inputs the parser rejects are counted, not judged (C02 is about the tree of accepted expressions)",
];
