//! C13 Lexing is lossless, positions are exact, nothing is skipped.

use crate::pipe::{lex_g, Fail};
use crate::reflex::{can_start_token, is_gap, reflex, RLex, OPERATORS};
use crate::run::{run_cases, Acc, Ctx};
use crate::util::{fnv_str, panic_site, Json, Rng};
use garnish_lang_compiler::lex::TokenType as T;

fn cclass(c: char) -> &'static str {
    match c {
        ' ' | '\t' => "blank",
        '\n' => "newline",
        '\r' => "cr",
        c if c.is_alphanumeric() => "alnum",
        '"' | '\'' => "quote",
        c if !can_start_token(c) => "invalid-char",
        _ => "punct",
    }
}

pub fn check(s: &str, acc: &mut Acc) {
    acc.evals += 1;
    let payload = || Json::obj().with("input", Json::s(s));
    let has_cr = s.contains('\r') || s.contains('\x0C');
    let actual = lex_g(s);
    let reference = reflex(s);
    let toks = match actual {
        Err(Fail::Panic(_, msg, loc)) => {
            acc.violation(format!("panic|{}|lex", panic_site(&loc)), format!("lex({:?}) panicked: {} at {}", s, msg, loc), payload());
            return;
        }
        Err(Fail::Err(..)) => {
            match reference {
                RLex::Tokens(_) => acc.count("rejected_although_reference_lexes"),
                RLex::Invalid(..) => acc.count("invalid_char_rejected"),
                RLex::Unlexable(_) => acc.count("unlexable_rejected"),
            }
            return;
        }
        Ok(t) => t,
    };
    acc.count("lexed_ok");
    // ---- lossless, no empty token
    let cat: String = toks.iter().map(|t| t.get_text().as_str()).collect();
    if cat != s {
        // classify what went missing / changed
        let a: Vec<char> = s.chars().collect();
        let b: Vec<char> = cat.chars().collect();
        let mut i = 0;
        while i < a.len() && i < b.len() && a[i] == b[i] {
            i += 1;
        }
        let what = if i < a.len() { cclass(a[i]) } else { "extra-output" };
        acc.violation(
            format!("lossy|first-diff:{}", what),
            format!("lex({:?}) succeeded but the token texts concatenate to {:?}", s, cat),
            payload().with("tokens", Json::s(format!("{:?}", toks.iter().map(|t| (t.get_token_type(), t.get_text().clone())).collect::<Vec<_>>()))),
        );
        return;
    }
    if let Some(t) = toks.iter().find(|t| t.get_text().is_empty()) {
        acc.violation(format!("empty-token|{:?}", t.get_token_type()), format!("lex({:?}) produced an empty {:?} token", s, t.get_token_type()), payload());
        return;
    }
    let rt = match reference {
        RLex::Invalid(c, at) => {
            acc.violation(
                format!("invalid-char-accepted|{}", if c.is_control() { "control" } else { "printable" }),
                format!("lex({:?}) succeeded although {:?} at {} can neither start nor continue a token", s, c, at),
                payload(),
            );
            return;
        }
        RLex::Unlexable(why) => {
            acc.violation(format!("accepted-unlexable|{}", why.split(" at ").next().unwrap_or("").chars().filter(|c| !c.is_ascii_digit()).collect::<String>()), format!("lex({:?}) succeeded but the reference finds no token sequence: {}", s, why), payload());
            return;
        }
        RLex::Tokens(t) => t,
    };
    if has_cr {
        acc.count("cr_inputs_structure_not_judged");
        return;
    }
    acc.nontrivial_hint();
    // ---- positions: first character of every token
    let mut line = 0usize;
    let mut col = 0usize;
    let mut prev = "start".to_string();
    for t in &toks {
        if t.get_line() != line || t.get_column() != col {
            let kind = if t.get_line() != line { "line" } else { "column" };
            acc.violation(
                format!("position|{}|{:?}|after:{}", kind, t.get_token_type(), prev),
                format!("lex({:?}): token {:?} {:?} reports ({}, {}) but its first character is at line {}, column {}", s, t.get_token_type(), t.get_text(), t.get_line(), t.get_column(), line, col),
                payload(),
            );
            break;
        }
        for ch in t.get_text().chars() {
            if ch == '\n' {
                line += 1;
                col = 0;
            } else {
                col += 1;
            }
        }
        prev = format!("{:?}", t.get_token_type());
    }
    // ---- classification by longest match: compare with the reference, gaps merged
    let mut norm: Vec<(String, T)> = vec![];
    for t in &toks {
        let ty = t.get_token_type();
        if is_gap(ty) {
            if let Some(last) = norm.last_mut() {
                if is_gap(last.1) {
                    last.0.push_str(t.get_text());
                    if ty == T::Subexpression {
                        last.1 = T::Subexpression;
                    }
                    continue;
                }
            }
        }
        norm.push((t.get_text().clone(), ty));
    }
    let refn: Vec<(String, T)> = rt.iter().map(|t| (t.text.clone(), t.ty)).collect();
    if norm != refn {
        let mut i = 0;
        while i < norm.len() && i < refn.len() && norm[i] == refn[i] {
            i += 1;
        }
        let a = norm.get(i).map(|x| format!("{:?}", x.1)).unwrap_or("end".into());
        let r = refn.get(i).map(|x| format!("{:?}", x.1)).unwrap_or("end".into());
        let same_text = norm.get(i).map(|x| &x.0) == refn.get(i).map(|x| &x.0);
        acc.violation(
            format!("classification|want:{}|got:{}|{}", r, a, if same_text { "same-text" } else { "boundary" }),
            format!("lex({:?}) = {:?} but longest match against the token table gives {:?}", s, norm, refn),
            payload(),
        );
    }
}

trait Hint {
    fn nontrivial_hint(&mut self);
}
impl Hint for Acc {
    fn nontrivial_hint(&mut self) {
        self.count("structure_compared");
    }
}

fn nth_string(alpha: &[char], len: usize, mut code: u64) -> String {
    let mut s = String::new();
    for _ in 0..len {
        s.push(alpha[(code % alpha.len() as u64) as usize]);
        code /= alpha.len() as u64;
    }
    s
}

pub const FULL: [char; 34] = [
    'a', '1', '_', ':', '.', ' ', '\n', '\t', '\r', '"', '\'', '\\', '@', '`', '+', '-', '<', '>', '~', '$', '?', '!', '|', '=', ';', '(', ')', '{', ',', '^', '#', 'é', '😀', '§',
];
pub const MID: [char; 20] = ['a', '1', '_', ':', '.', ' ', '\n', '\t', '"', '\'', '@', '`', '>', '<', '~', '$', ';', '(', ')', 'é'];
pub const SMALL: [char; 12] = ['a', '1', '.', ' ', '\n', '"', '\'', '@', '>', '_', ';', 'é'];

pub fn run(ctx: &Ctx) -> (Acc, String, bool) {
    // (alphabet, length) blocks enumerated exhaustively
    let blocks: Vec<(&[char], usize)> = if ctx.quick() {
        vec![(&FULL, 1), (&FULL, 2), (&FULL, 3), (&MID, 4), (&SMALL, 5)]
    } else {
        vec![(&FULL, 1), (&FULL, 2), (&FULL, 3), (&FULL, 4), (&MID, 5), (&SMALL, 6), (&SMALL, 7)]
    };
    // characters that are neither ASCII white space nor the start or continuation of any token (Unicode spaces,
    // vertical tab, zero-width and control characters), each inside a small alphabet of ordinary characters
    const ODD: [char; 11] = ['\u{0}', '\u{a0}', '\u{b}', '\u{2003}', '\u{3000}', '\u{85}', '\u{200b}', '\u{feff}', '\u{1}', '\u{7f}', '\u{2028}'];
    let odd_alphas: Vec<Vec<char>> = ODD.iter().map(|c| vec!['a', '1', ' ', '\n', '"', '.', *c]).collect();
    let mut blocks = blocks;
    for a in &odd_alphas {
        for l in 1..=ctx.pick(4usize, 5usize) {
            blocks.push((a.as_slice(), l));
        }
    }
    let mut offs = vec![0u64];
    for (a, l) in &blocks {
        offs.push(offs.last().unwrap() + (a.len() as u64).pow(*l as u32));
    }
    let ex_total = *offs.last().unwrap();
    let nops = OPERATORS.len() as u64;
    let pair_total = nops * nops;
    let random_total: u64 = ctx.pick(400_000, 15_000_000);
    let seed = ctx.seed;
    // the repository's own scripts, and every prefix of each (cut anywhere: inside tokens too)
    let scripts: Vec<String> = {
        let mut v = vec![];
        for (_, text) in crate::corpus::repo_scripts() {
            let idx: Vec<usize> = text.char_indices().map(|(i, _)| i).collect();
            for c in idx.iter().skip(1) {
                v.push(text[..*c].to_string());
            }
            v.push(text);
        }
        v
    };
    let script_total = scripts.len() as u64;
    let acc = run_cases(ctx, ex_total + pair_total + random_total + script_total, |i, acc| {
        if i >= ex_total + pair_total + random_total {
            check(&scripts[(i - ex_total - pair_total - random_total) as usize], acc);
            acc.nontrivial += 1;
            acc.count("repo_script_prefixes");
        } else if i < ex_total {
            let bi = offs.iter().rposition(|o| *o <= i).unwrap();
            let (a, l) = blocks[bi];
            let s = nth_string(a, l, i - offs[bi]);
            check(&s, acc);
            acc.nontrivial += 1;
            if i % 40_009 == 0 {
                acc.sample(Json::s(format!("{:?} -> reference {:?}", s, reflex(&s))));
            }
        } else if i < ex_total + pair_total {
            let j = i - ex_total;
            let (o1, o2) = (OPERATORS[(j / nops) as usize].0, OPERATORS[(j % nops) as usize].0);
            for s in [format!("{}{}", o1, o2), format!("a{}{}b", o1, o2), format!("1 {}{} 2", o1, o2), format!("$ {} {} .5", o1, o2)] {
                check(&s, acc);
            }
            acc.nontrivial += 1;
        } else {
            let mut r = Rng::for_case(seed, i);
            let n = 4 + r.below(40);
            let mut s = String::new();
            while s.chars().count() < n {
                match r.below(10) {
                    0 => s.push_str(r.pick(&OPERATORS).0),
                    1 => s.push_str(*r.pick::<&str>(&["abc", "x", "_y", ":sym", "a:b", "`f`", "f`", "`f"])),
                    2 => s.push_str(*r.pick::<&str>(&["1", "42", "3.5", ".5", "1..4", "016_ff", "7."])),
                    3 => s.push_str(*r.pick::<&str>(&["\"str\"", "\"\"", "\"\"\"a\"b\"\"\"", "'b'", "''", "'''1 2'''", "\"é\""])),
                    4 => s.push_str(*r.pick::<&str>(&[" ", "  ", "\t", "\n", "\n\n", " \n\n", "\n \n", " \n \t\n ", "\n\n\n"])),
                    5 => s.push_str(*r.pick::<&str>(&["@a", "@", "@@ line\n", "@@x"])),
                    _ => s.push(*r.pick(&FULL)),
                }
            }
            acc.distinct.insert(fnv_str(&s));
            check(&s, acc);
            if i % 20_011 == 0 {
                acc.sample(Json::s(format!("random {:?}", s)));
            }
        }
    });
    let rule = format!(
        "exhaustive: every string over a 34-character alphabet (one representative per character class, quotes, backslash, newline, CR, tab, @, backtick, 2- and 4-byte characters, the invalid character §) up to length {}, over a 20-character alphabet at length {}, over a 12-character alphabet up to length {} ({} strings); every ordered pair of the 60 operator spellings in 4 contexts; {} random strings of 4..44 characters assembled from operators, identifiers, numbers, literals, blank runs and annotations; every prefix of every script under the repository's tests/scripts. Each is lexed by the real lexer and by the reference scanner; judged: losslessness, no empty token, exact line/column of every token (inputs without CR/FF), token boundaries and types against longest match (blank runs merged, sub-expression iff two line breaks), and rejection of characters that start no token.",
        ctx.pick(3, 4),
        ctx.pick(4, 5),
        ctx.pick(5, 7),
        ex_total,
        random_total
    );
    (acc, rule, false)
}

pub const ASSUMPTIONS: &[&str] = &[
    "token table and scanning rules of DESIGN Appendix E (pinned in reflex.rs)",
    "only successful lexes are compared token by token; rejecting an input the reference could split is accepted",
    "how a blank run is cut into Whitespace/Subexpression tokens is not pinned: runs are merged, and must contain a Subexpression token iff they hold two line breaks",
    "inputs containing CR or FF are judged for losslessness, empty tokens and invalid characters only",
];
