//! C14 Literals denote exactly what they spell.

use crate::mon::Mon;
use crate::pipe::{compile, run as run_prog, start, Fail, RunEnd};
use crate::run::{run_cases, Acc, Ctx};
use crate::store::{Basic, Num, Simple, Store};
use crate::util::{fnv_str, guarded, panic_site, Json, Rng};
use crate::value::{readback, Mk, V};
use garnish_lang_traits::GarnishData;

#[derive(Clone, Debug)]
enum Expect {
    Exact(V),
    /// byte literal spelled with characters outside ASCII: either the UTF-8 bytes or the low byte of
    /// each code point is accepted, never anything else (in particular no delimiter bytes)
    BytesEither(Vec<u8>, Vec<u8>),
    /// symbol literal: value + the name the store must report for it
    Symbol(u64, String),
}

#[derive(Clone, Debug)]
struct Case {
    src: String,
    expect: Expect,
    class: String,
}

fn digits(mut v: u64, radix: u32, upper: bool) -> String {
    if v == 0 {
        return "0".into();
    }
    let mut s = vec![];
    while v > 0 {
        let d = (v % radix as u64) as u32;
        let c = std::char::from_digit(d, radix).unwrap();
        s.push(if upper { c.to_ascii_uppercase() } else { c });
        v /= radix as u64;
    }
    s.iter().rev().collect()
}

fn with_separators(r: &mut Rng, s: &str) -> String {
    let cs: Vec<char> = s.chars().collect();
    let mut out = String::new();
    for (i, c) in cs.iter().enumerate() {
        out.push(*c);
        if i + 1 < cs.len() && r.chance(1, 3) {
            out.push('_');
        }
    }
    out
}

fn int_case(r: &mut Rng, v: i32, radix: u32, seps: bool, lead_zeros: usize) -> Case {
    let body = digits(v as u64, radix, r.chance(1, 2));
    let rclass = if radix == 10 { "r10" } else if radix % 10 == 0 { "radix-multiple-of-10" } else { "radix-other" };
    if radix == 10 && r.chance(1, 2) {
        // plain decimal, optional separators (never directly after a leading 0: `0_1` is a radix prefix)
        let b = if seps && !body.starts_with('0') { with_separators(r, &body) } else { body };
        let c = if b.contains('_') { "sep" } else { "plain" };
        Case { src: b, expect: Expect::Exact(V::Int(v)), class: format!("int|decimal|{}", c) }
    } else {
        let b = if seps { with_separators(r, &body) } else { body };
        let src = format!("0{}{}_{}", "0".repeat(lead_zeros), radix, b);
        Case { src, expect: Expect::Exact(V::Int(v)), class: format!("int|{}|{}{}", rclass, if seps { "sep" } else { "plain" }, if lead_zeros > 0 { "|lead0" } else { "" }) }
    }
}

fn float_spelling(f: f64) -> (String, &'static str) {
    let dbg = format!("{:?}", f);
    if dbg.contains("e-") {
        (format!("{}", f), "long-decimal")
    } else if dbg.contains('e') {
        (dbg, "exponent")
    } else {
        (dbg, "decimal")
    }
}

fn escape_1q(s: &str) -> String {
    let mut o = String::new();
    for c in s.chars() {
        match c {
            '\\' => o.push_str("\\\\"),
            '"' => o.push_str("\\u{22}"),
            '\n' => o.push_str("\\n"),
            '\t' => o.push_str("\\t"),
            '\r' => o.push_str("\\r"),
            '\0' => o.push_str("\\0"),
            c => o.push(c),
        }
    }
    o
}

fn string_cases(s: &str) -> Vec<Case> {
    let mb = if s.is_ascii() { "ascii" } else { "multibyte" };
    let esc = if s.chars().any(|c| "\\\"\n\t\r\0".contains(c)) { "esc" } else { "noesc" };
    let mut out = vec![];
    if s.is_empty() {
        out.push(Case { src: "\"\"".into(), expect: Expect::Exact(V::str("")), class: "str|q2-empty".into() });
        return out;
    }
    out.push(Case { src: format!("\"{}\"", escape_1q(s)), expect: Expect::Exact(V::str(s)), class: format!("str|q1|{}|{}", mb, esc) });
    // multi-quote forms: raw newlines/tabs are kept, quotes inside are fine while shorter than the
    // delimiter and not touching it
    for q in [3usize, 4] {
        let touches = s.starts_with('"') || s.ends_with('"');
        let mut run = 0;
        let mut maxrun = 0;
        for c in s.chars() {
            if c == '"' {
                run += 1;
                maxrun = maxrun.max(run);
            } else {
                run = 0;
            }
        }
        if touches || maxrun >= q || s.contains('\r') {
            continue;
        }
        let mut body = String::new();
        for c in s.chars() {
            match c {
                '\\' => body.push_str("\\\\"),
                c => body.push(c),
            }
        }
        let d = "\"".repeat(q);
        out.push(Case { src: format!("{}{}{}", d, body, d), expect: Expect::Exact(V::str(s)), class: format!("str|q{}|{}|{}", q, mb, esc) });
    }
    out
}

fn bytes_cases(b: &[u8]) -> Vec<Case> {
    let mut out = vec![];
    if b.is_empty() {
        out.push(Case { src: "''".into(), expect: Expect::Exact(V::ByteList(vec![])), class: "bytes|q2-empty".into() });
        return out;
    }
    let nums: Vec<String> = b.iter().map(|x| x.to_string()).collect();
    out.push(Case { src: format!("'''{}'''", nums.join(" ")), expect: Expect::Exact(V::ByteList(b.to_vec())), class: "bytes|numeric".into() });
    // character spelling for bytes that have one
    if b.iter().all(|x| (*x >= 32 && *x < 127 && *x != b'\'') || [b'\n', b'\t', b'\r', 0].contains(x)) {
        let mut s = String::new();
        for x in b {
            match *x {
                b'\\' => s.push_str("\\\\"),
                b'\n' => s.push_str("\\n"),
                b'\t' => s.push_str("\\t"),
                b'\r' => s.push_str("\\r"),
                0 => s.push_str("\\0"),
                c => s.push(c as char),
            }
        }
        out.push(Case { src: format!("'{}'", s), expect: Expect::Exact(V::ByteList(b.to_vec())), class: "bytes|chars|ascii".into() });
    }
    out
}

fn byte_char_case(s: &str) -> Case {
    let utf8: Vec<u8> = s.bytes().collect();
    let low: Vec<u8> = s.chars().map(|c| c as u32 as u8).collect();
    Case { src: format!("'{}'", s), expect: Expect::BytesEither(utf8, low), class: "bytes|chars|multibyte".into() }
}

fn symbol_case(name: &str) -> Case {
    let mb = if name.is_ascii() { "ascii" } else { "multibyte" };
    Case { src: format!(":{}", name), expect: Expect::Symbol(garnish_lang_simple_data::symbol_value(name), name.to_string()), class: format!("symbol|{}", mb) }
}

fn eval<D: Store + Mk>(src: &str) -> Result<(Mon<D>, usize), Fail> {
    let mut m: Mon<D> = Mon::fresh();
    m.max_instr = 1000;
    m.max_data = 100_000;
    let c = compile(src, &mut m)?;
    let unit = m.add_unit().map_err(|e| Fail::Err(crate::pipe::Stage::Run, e.to_string()))?;
    start(&mut m, *c.build.jump_index(), unit).map_err(|e| Fail::Err(crate::pipe::Stage::Run, e))?;
    match run_prog(&mut m, 100) {
        RunEnd::End(_) => {}
        RunEnd::StepLimit(_) => return Err(Fail::Err(crate::pipe::Stage::Run, "step limit".into())),
        RunEnd::Fail(f, _) => return Err(f),
    }
    let a = m.get_current_value().ok_or(Fail::Err(crate::pipe::Stage::Run, "no current value".into()))?;
    Ok((m, a))
}

fn check<D: Store + Mk>(c: &Case, acc: &mut Acc) {
    acc.evals += 1;
    acc.seen("classes", c.class.clone());
    let payload = || Json::obj().with("store", Json::s(D::NAME)).with("source", Json::s(c.src.clone())).with("expect", Json::s(format!("{:?}", c.expect)));
    let (m, a) = match eval::<D>(&c.src) {
        Ok(x) => x,
        Err(Fail::Panic(st, msg, loc)) => {
            acc.violation(
                format!("panic|{}|{:?}|{}", panic_site(&loc), st, c.class),
                format!("[{}] literal {:?} panicked in {:?}: {} at {}", D::NAME, c.src, st, msg, loc),
                payload(),
            );
            return;
        }
        Err(Fail::Err(st, e)) => {
            acc.violation(
                format!("rejected|{:?}|{}|{}", st, D::NAME, c.class),
                format!("[{}] literal {:?} is rejected ({:?}: {}); every value must have a spelling that evaluates back to it", D::NAME, c.src, st, e),
                payload(),
            );
            return;
        }
    };
    let got = match guarded(|| readback(&m.d, a)) {
        Ok(Ok(v)) => v,
        Ok(Err(e)) => {
            acc.violation(format!("unreadable|{}|{}", D::NAME, c.class), format!("[{}] literal {:?}: {}", D::NAME, c.src, e), payload());
            return;
        }
        Err((msg, loc)) => {
            acc.violation(format!("panic|{}|readback|{}", panic_site(&loc), c.class), format!("[{}] reading back literal {:?} panicked: {}", D::NAME, c.src, msg), payload());
            return;
        }
    };
    let ok = match &c.expect {
        Expect::Exact(v) => got == *v && std::mem::discriminant(&got) == std::mem::discriminant(v),
        Expect::BytesEither(x, y) => got == V::ByteList(x.clone()) || got == V::ByteList(y.clone()),
        Expect::Symbol(s, _) => got == V::Sym(*s),
    };
    if !ok {
        acc.violation(
            format!("wrong-value|{}|{}", D::NAME, c.class),
            format!("[{}] literal {:?} evaluates to {} but spells {:?}", D::NAME, c.src, got.show(), c.expect),
            payload().with("got", got.json()),
        );
        return;
    }
    // element-wise getters must agree with the iterator view
    match (&got, &c.expect) {
        (V::CharList(s), Expect::Exact(_)) => {
            let n = s.chars().count();
            let r = guarded(|| -> Result<(), String> {
                let l = m.d.get_char_list_len(a).map_err(|e| e.to_string())?;
                if l != n {
                    return Err(format!("get_char_list_len = {} but the literal has {} characters", l, n));
                }
                for (i, ch) in s.chars().enumerate() {
                    let g = m.d.get_char_list_item(a, Num::Integer(i as i32)).map_err(|e| format!("get_char_list_item({}): {}", i, e))?;
                    if g != Some(ch) {
                        return Err(format!("get_char_list_item({}) = {:?}, expected {:?}", i, g, ch));
                    }
                }
                Ok(())
            });
            match r {
                Ok(Ok(())) => {}
                Ok(Err(e)) => acc.violation(format!("getter-mismatch|{}|{}", D::NAME, c.class), format!("[{}] literal {:?}: {}", D::NAME, c.src, e), payload()),
                Err((msg, loc)) => acc.violation(format!("panic|{}|getters|{}", panic_site(&loc), c.class), format!("[{}] literal {:?}: getters panicked: {}", D::NAME, c.src, msg), payload()),
            }
        }
        (V::ByteList(b), _) => {
            let r = guarded(|| -> Result<(), String> {
                let l = m.d.get_byte_list_len(a).map_err(|e| e.to_string())?;
                if l != b.len() {
                    return Err(format!("get_byte_list_len = {} but the literal lists {} bytes", l, b.len()));
                }
                for (i, x) in b.iter().enumerate() {
                    let g = m.d.get_byte_list_item(a, Num::Integer(i as i32)).map_err(|e| format!("get_byte_list_item({}): {}", i, e))?;
                    if g != Some(*x) {
                        return Err(format!("get_byte_list_item({}) = {:?}, expected {}", i, g, x));
                    }
                }
                Ok(())
            });
            match r {
                Ok(Ok(())) => {}
                Ok(Err(e)) => acc.violation(format!("getter-mismatch|{}|{}", D::NAME, c.class), format!("[{}] literal {:?}: {}", D::NAME, c.src, e), payload()),
                Err((msg, loc)) => acc.violation(format!("panic|{}|getters|{}", panic_site(&loc), c.class), format!("[{}] literal {:?}: getters panicked: {}", D::NAME, c.src, msg), payload()),
            }
        }
        (V::Sym(_), Expect::Symbol(s, name)) => match guarded(|| m.d.symbol_name(*s)) {
            Ok(Some(n)) if n == *name => {}
            Ok(other) => acc.violation(
                format!("symbol-name|{}|{}", D::NAME, c.class),
                format!("[{}] symbol literal {:?}: the store reports the name {:?}, written {:?}", D::NAME, c.src, other, name),
                payload(),
            ),
            Err((msg, loc)) => acc.violation(
                format!("panic|{}|symbol-name|{}", panic_site(&loc), c.class),
                format!("[{}] symbol literal {:?}: looking its name up panicked: {} at {}", D::NAME, c.src, msg, loc),
                payload(),
            ),
        },
        _ => {}
    }
}

fn all_strings(alpha: &[char], max: usize) -> Vec<String> {
    let mut out = vec![String::new()];
    let mut cur = vec![String::new()];
    for _ in 0..max {
        let mut next = vec![];
        for s in &cur {
            for c in alpha {
                let mut t = s.clone();
                t.push(*c);
                next.push(t);
            }
        }
        out.extend(next.iter().cloned());
        cur = next;
    }
    out
}

/// several literals in one program (`a, b, c`): each item must still be exactly what it spells, whatever other
/// constants the same program holds (equal numbers of different kinds, equal text in other quote forms, ...)
fn check_together<D: Store + Mk>(cs: &[&Case], acc: &mut Acc) {
    let exact: Vec<(&Case, &V)> = cs.iter().filter_map(|c| if let Expect::Exact(v) = &c.expect { Some((*c, v)) } else { None }).collect();
    if exact.len() < 2 {
        return;
    }
    acc.evals += 1;
    acc.count("programs_with_several_literals");
    let src = exact.iter().map(|(c, _)| format!("({})", c.src)).collect::<Vec<_>>().join(", ");
    let class = format!("together|{}", exact.iter().map(|(c, _)| c.class.split('|').next().unwrap_or("")).collect::<Vec<_>>().join("+"));
    let payload = || Json::obj().with("store", Json::s(D::NAME)).with("source", Json::s(src.clone()));
    let (m, a) = match eval::<D>(&src) {
        Ok(x) => x,
        Err(Fail::Panic(st, msg, loc)) => {
            acc.violation(format!("panic|{}|{:?}|{}", panic_site(&loc), st, class), format!("[{}] {:?} panicked in {:?}: {} at {}", D::NAME, src, st, msg, loc), payload());
            return;
        }
        Err(Fail::Err(st, e)) => {
            acc.violation(format!("rejected|{:?}|{}|{}", st, D::NAME, class), format!("[{}] {:?} is rejected ({:?}: {})", D::NAME, src, st, e), payload());
            return;
        }
    };
    let got = match guarded(|| readback(&m.d, a)) {
        Ok(Ok(v)) => v,
        other => {
            acc.violation(format!("unreadable|{}|{}", D::NAME, class), format!("[{}] {:?}: {:?}", D::NAME, src, other.map(|x| x.map(|y| y.show()))), payload());
            return;
        }
    };
    let items = match &got {
        V::List(xs) => xs.clone(),
        _ => vec![],
    };
    let ok = items.len() == exact.len() && items.iter().zip(exact.iter()).all(|(g, (_, v))| g == *v && std::mem::discriminant(g) == std::mem::discriminant(*v));
    if !ok {
        acc.violation(
            format!("wrong-value|{}|{}", D::NAME, class),
            format!("[{}] {:?} evaluates to {} but its items spell {:?}", D::NAME, src, got.show(), exact.iter().map(|(_, v)| v.show()).collect::<Vec<_>>()),
            payload().with("got", got.json()),
        );
    }
}

pub fn run(ctx: &Ctx) -> (Acc, String, bool) {
    let alpha = ['a', ' ', '"', '\\', '\n', '\t', 'é', '€', '😀', '0', '\''];
    let strs = all_strings(&alpha, ctx.pick(2, 3));
    let balpha = [0u8, 39, 92, 97, 10, 255, 32];
    let mut bvecs: Vec<Vec<u8>> = vec![vec![]];
    for a in balpha {
        bvecs.push(vec![a]);
        for b in balpha {
            bvecs.push(vec![a, b]);
        }
    }
    let names = ["a", "abc", "a_b", "x1", "é", "été", "名前", "aß9", "_x", "A9"];
    let bchar_strs = ["é", "aé", "éa", "€", "😀", "é€"];
    let ints_boundary: Vec<i32> = vec![0, 1, 2, 7, 9, 10, 11, 35, 36, 37, 99, 100, 255, 256, 1000, 65535, 65536, 1 << 30, i32::MAX - 1, i32::MAX];
    let n_strs = strs.len() as u64;
    let n_b = bvecs.len() as u64;
    let n_int_ex = (ints_boundary.len() * 35) as u64;
    let fixed = n_strs + n_b + n_int_ex + 1;
    let random_total: u64 = ctx.pick(200_000, 30_000_000);
    let seed = ctx.seed;
    let acc = run_cases(ctx, fixed + random_total, |i, acc| {
        let mut cases: Vec<Case> = vec![];
        let mut r = Rng::for_case(seed, i);
        if i < n_strs {
            cases.extend(string_cases(&strs[i as usize]));
            acc.nontrivial += 1;
        } else if i < n_strs + n_b {
            cases.extend(bytes_cases(&bvecs[(i - n_strs) as usize]));
            acc.nontrivial += 1;
        } else if i < n_strs + n_b + n_int_ex {
            let j = (i - n_strs - n_b) as usize;
            let v = ints_boundary[j / 35];
            let radix = 2 + (j % 35) as u32;
            cases.push(int_case(&mut r, v, radix, false, 0));
            cases.push(int_case(&mut r, v, radix, true, 0));
            let lz = 1 + r.below(2);
            cases.push(int_case(&mut r, v, radix, false, lz));
            acc.nontrivial += 1;
        } else if i == fixed - 1 {
            for n in names {
                cases.push(symbol_case(n));
            }
            for s in bchar_strs {
                cases.push(byte_char_case(s));
            }
            for f in [0.0, 0.5, 1.5, 100.0, 0.1, 1e16, 1e300, 1.5e300, f64::MAX, f64::MIN_POSITIVE, 5e-324, 2147483648.0, 0.000001, 123456.789] {
                let (s, form) = float_spelling(f);
                cases.push(Case { src: s, expect: Expect::Exact(V::Float(f)), class: format!("float|{}", form) });
            }
            acc.nontrivial += 1;
        } else {
            match r.below(4) {
                0 => {
                    let v = match r.below(3) {
                        0 => (r.next() % (1u64 << 31)) as i32,
                        1 => r.below(5000) as i32,
                        _ => *r.pick(&ints_boundary),
                    };
                    let radix = 2 + r.below(35) as u32;
                    let seps = r.chance(1, 2);
                    let lead = if r.chance(1, 5) { 1 } else { 0 };
                    cases.push(int_case(&mut r, v, radix, seps, lead));
                }
                1 => {
                    let f = match r.below(4) {
                        0 => f64::from_bits(r.next() & 0x7FFF_FFFF_FFFF_FFFF),
                        1 => (r.next() % 1_000_000) as f64 / 64.0,
                        2 => (r.next() as u32) as f64 + 0.5,
                        _ => (r.next() % 1000) as f64 * 1e-9,
                    };
                    if f.is_finite() {
                        let (s, form) = float_spelling(f);
                        // spelled with a fraction or exponent, otherwise it would be an integer literal
                        if s.contains('.') || s.contains('e') {
                            cases.push(Case { src: s, expect: Expect::Exact(V::Float(f)), class: format!("float|{}", form) });
                        }
                    }
                }
                2 => {
                    let n = 1 + r.below(12);
                    let s: String = (0..n).map(|_| *r.pick(&['a', 'b', ' ', '"', '\\', '\n', '\t', 'é', 'ß', '€', '😀', '{', '}', 'u', '\'', '@', '\0', '\u{1}', '\u{a0}'])).collect();
                    cases.extend(string_cases(&s));
                }
                _ => {
                    let n = 1 + r.below(10);
                    let b: Vec<u8> = (0..n).map(|_| if r.chance(1, 2) { r.next() as u8 } else { *r.pick(&balpha) }).collect();
                    cases.extend(bytes_cases(&b));
                }
            }
            for c in &cases {
                acc.distinct.insert(fnv_str(&c.src));
            }
        }
        for c in &cases {
            check::<Simple>(c, acc);
            check::<Basic>(c, acc);
        }
        // the literals of this case in one program, and with numerically / textually equal literals of another kind
        if cases.len() >= 2 {
            let refs: Vec<&Case> = cases.iter().take(4).collect();
            check_together::<Simple>(&refs, acc);
            check_together::<Basic>(&refs, acc);
        }
        if let Some(c) = cases.first() {
            let twin: Option<Case> = match &c.expect {
                Expect::Exact(V::Int(v)) => Some(Case { src: format!("{}.0", v), expect: Expect::Exact(V::Float(*v as f64)), class: "float|twin".into() }),
                Expect::Exact(V::Float(f)) if f.fract() == 0.0 && f.abs() < 2147483648.0 => Some(Case { src: format!("{}", *f as i64), expect: Expect::Exact(V::Int(*f as i32)), class: "int|twin".into() }),
                Expect::Exact(V::CharList(t)) if !t.is_empty() && t.chars().all(|ch| ch.is_ascii_alphanumeric()) => Some(Case { src: format!("'{}'", t), expect: Expect::Exact(V::ByteList(t.bytes().collect())), class: "bytes|twin".into() }),
                _ => None,
            };
            if let Some(t) = twin {
                for order in [[c, &t], [&t, c]] {
                    check_together::<Simple>(&order, acc);
                    check_together::<Basic>(&order, acc);
                }
            }
        }
        if i % 2003 == 0 {
            if let Some(c) = cases.first() {
                acc.sample(Json::s(format!("{:?} must denote {:?}", c.src, c.expect)));
            }
        }
    });
    let rule = format!(
        "exhaustive: all {} strings of length <= {} over {{a, space, quote, backslash, newline, tab, é, €, 😀, 0, apostrophe}} in 1-quote (escaped), 3- and 4-quote forms; all {} byte vectors of length <= 2 over 7 byte values in numeric and character spellings; {} boundary non-negative i32 x every radix 2..36 (plain / separators / leading zeros); fixed floats, symbol names (ASCII and multi-byte) and non-ASCII byte-literal spellings; random: {} literals (ints in random radix with separators, finite non-negative floats in shortest decimal/exponent form, strings and byte vectors up to 12 elements). Each literal is compiled and run as a one-literal program on both stores, read back, and re-read through the element getters; the literals of a case are also compiled together in one program, and every integer / whole float / plain text literal next to its twin of the other kind (7 and 7.0, \"ab\" and 'ab') in both orders.",
        n_strs,
        ctx.pick(2, 3),
        n_b,
        ints_boundary.len(),
        random_total
    );
    (acc, rule, false)
}

pub const ASSUMPTIONS: &[&str] = &[
    "spellings used: decimal and 0R_ radix integers with _ separators; shortest round-trip decimal / positive-exponent floats; 1-quote strings with backslash escapes (\\\\ \\n \\t \\r \\0 \\u{22}); 3/4-quote raw strings; 'chars' and '''n n''' byte lists; :name symbols",
    "a non-ASCII character inside a 'chars' byte literal may denote its UTF-8 bytes or the low byte of its code point (not settled by the property); anything else is a violation",
];
