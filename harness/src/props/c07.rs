//! C07 — see props/sweep.rs (shared compile-pipeline sweep) for the corpus and the judge.

use crate::props::sweep::{run as sweep, Which};
use crate::run::{Acc, Ctx};

pub fn run(ctx: &Ctx) -> (Acc, String, bool) {
    sweep(ctx, Which::C07)
}

pub const ASSUMPTIONS: &[&str] = &["a step budget bounds every execution (2000 quick / 10000 thorough); Err results are acceptable, only unwinding or aborting is a violation", "run under both the overflow-checking (mon) and the release profile"];
