//! C07 — see props/sweep.rs (shared compile-pipeline sweep) for the corpus and the judge of the program-level
//! part. This file adds the *deeply nested data* leg: values nested N levels deep are built iteratively through
//! the data trait and one instruction (or clone_data / optimize) is executed on them, each case in a child
//! process on a thread with the default 2 MiB stack of a spawned Rust thread — a stack overflow aborts the
//! process and cannot be caught by catch_unwind, so the parent reads the child's exit status instead.

use crate::pipe::{exec_one_at, Fail};
use crate::props::sweep::{run as sweep, Which};
use crate::run::{Acc, Ctx};
use crate::store::{Basic, Simple, Store};
use crate::util::{panic_site, Json};
use crate::value::Mk;
use garnish_lang_traits::{GarnishData, GarnishDataType as T, Instruction as I};

pub const SHAPES: [&str; 7] = ["pair-right", "pair-left", "list-in-list", "concat-right", "concat-left", "list-of-pairs-chain", "slice-of-slice"];
pub const OPS: [&str; 18] = [
    "cast-text", "cast-bytes", "cast-symbol", "cast-list", "equal-self", "equal-copy", "not-equal-copy", "less-than-copy", "concat-self", "pair-self", "length", "left", "right", "type-of", "access-0", "apply-0",
    "clone-data", "optimize",
];

/// build a value nested `depth` levels deep, iteratively (no recursion in the harness)
fn build_deep<D: Store + Mk>(d: &mut D, shape: &str, depth: usize) -> Result<usize, String> {
    let e = |x: garnish_lang_simple_data::DataError| x.to_string();
    let one = d.add_number(1.into()).map_err(e)?;
    let two = d.add_number(2.into()).map_err(e)?;
    let mut cur = one;
    for i in 0..depth {
        cur = match shape {
            "pair-right" => d.add_pair((one, cur)).map_err(e)?,
            "pair-left" => d.add_pair((cur, two)).map_err(e)?,
            "list-in-list" => {
                let l = d.start_list(1).map_err(e)?;
                let l = d.add_to_list(l, cur).map_err(e)?;
                d.end_list(l).map_err(e)?
            }
            "concat-right" => d.add_concatenation(one, cur).map_err(e)?,
            "concat-left" => d.add_concatenation(cur, two).map_err(e)?,
            "list-of-pairs-chain" => {
                let sym = d.add_symbol(crate::pool::sym_u("alpha")).map_err(e)?;
                let p = d.add_pair((sym, cur)).map_err(e)?;
                let l = d.start_list(2).map_err(e)?;
                let l = d.add_to_list(l, two).map_err(e)?;
                let l = d.add_to_list(l, p).map_err(e)?;
                d.end_list(l).map_err(e)?
            }
            "slice-of-slice" => {
                if i == 0 {
                    let l = d.start_list(3).map_err(e)?;
                    let l = d.add_to_list(l, one).map_err(e)?;
                    let l = d.add_to_list(l, two).map_err(e)?;
                    let l = d.add_to_list(l, one).map_err(e)?;
                    d.end_list(l).map_err(e)?
                } else {
                    let zero = d.add_number(0.into()).map_err(e)?;
                    let r = d.add_range(zero, two).map_err(e)?;
                    d.add_slice(cur, r).map_err(e)?
                }
            }
            _ => return Err(format!("unknown shape {}", shape)),
        };
    }
    Ok(cur)
}

/// the body of one case; returns "ok" / "err: .." / "panic: <site> | <message>"
fn deep_case<D: Store + Mk + DeepExtra>(shape: &str, depth: usize, op: &str) -> String {
    let mut d = D::fresh();
    let v = match build_deep(&mut d, shape, depth) {
        Ok(a) => a,
        Err(e) => return format!("setup-err: {}", e),
    };
    let copy = match op {
        "equal-copy" | "not-equal-copy" | "less-than-copy" => match build_deep(&mut d, shape, depth) {
            Ok(a) => a,
            Err(e) => return format!("setup-err: {}", e),
        },
        _ => v,
    };
    if op == "clone-data" || op == "optimize" {
        return match crate::util::guarded(|| D::extra(&mut d, op, v)) {
            Ok(Ok(())) => "ok".into(),
            Ok(Err(e)) => format!("err: {}", e),
            Err((m, l)) => format!("panic: {} | {}", panic_site(&l), m),
        };
    }
    let mut m: crate::mon::Mon<D> = crate::mon::Mon::new(d);
    m.shadow_on = false;
    let ty = |m: &mut crate::mon::Mon<D>, t: T| m.add_type(t).map_err(|e| e.to_string());
    let num0 = m.add_number(0.into()).map_err(|e| e.to_string());
    let (ins, operands): (I, Vec<usize>) = match op {
        "cast-text" => (I::ApplyType, vec![v, ty(&mut m, T::CharList).unwrap_or(0)]),
        "cast-bytes" => (I::ApplyType, vec![v, ty(&mut m, T::ByteList).unwrap_or(0)]),
        "cast-symbol" => (I::ApplyType, vec![v, ty(&mut m, T::Symbol).unwrap_or(0)]),
        "cast-list" => (I::ApplyType, vec![v, ty(&mut m, T::List).unwrap_or(0)]),
        "equal-self" => (I::Equal, vec![v, v]),
        "equal-copy" => (I::Equal, vec![v, copy]),
        "not-equal-copy" => (I::NotEqual, vec![v, copy]),
        "less-than-copy" => (I::LessThan, vec![v, copy]),
        "concat-self" => (I::Concat, vec![v, v]),
        "pair-self" => (I::MakePair, vec![v, v]),
        "length" => (I::AccessLengthInternal, vec![v]),
        "left" => (I::AccessLeftInternal, vec![v]),
        "right" => (I::AccessRightInternal, vec![v]),
        "type-of" => (I::TypeOf, vec![v]),
        "access-0" => (I::Access, vec![v, num0.clone().unwrap_or(0)]),
        "apply-0" => (I::Apply, vec![v, num0.unwrap_or(0)]),
        _ => return format!("setup-err: unknown op {}", op),
    };
    crate::props::prep_expr0(&mut m);
    match exec_one_at(&mut m, ins, None, &operands) {
        Err(e) => format!("setup-err: {}", e),
        Ok(one) => match one.outcome {
            Ok(_) => "ok".into(),
            Err(Fail::Err(_, e)) => format!("err: {}", e.chars().take(120).collect::<String>()),
            Err(Fail::Panic(_, msg, loc)) => format!("panic: {} | {}", panic_site(&loc), msg.chars().filter(|c| !c.is_ascii_digit()).take(90).collect::<String>()),
        },
    }
}

/// store-specific whole-value operations (BasicGarnishData: clone_data, optimize)
pub trait DeepExtra: Sized {
    fn extra(d: &mut Self, op: &str, v: usize) -> Result<(), String>;
}
impl DeepExtra for Simple {
    fn extra(_d: &mut Self, _op: &str, _v: usize) -> Result<(), String> {
        Ok(())
    }
}
impl DeepExtra for Basic {
    fn extra(d: &mut Self, op: &str, v: usize) -> Result<(), String> {
        match op {
            "clone-data" => d.clone_data(v).map(|_| ()).map_err(|e| e.to_string()),
            _ => {
                d.push_register(v).map_err(|e| e.to_string())?;
                d.optimize(&[v]).map(|_| ()).map_err(|e| e.to_string())
            }
        }
    }
}

/// entry point of the child process: `gmon deep <store> <shape> <depth> <op>`; prints one line
pub fn deep_child(args: &[String]) {
    let (store, shape, depth, op) = (args[0].clone(), args[1].clone(), args[2].parse::<usize>().unwrap_or(1), args[3].clone());
    // the stack a spawned thread gets by default (what a host running scripts on worker threads, or `cargo test`, has)
    let h = std::thread::Builder::new().stack_size(2 << 20).spawn(move || if store == "simple" { deep_case::<Simple>(&shape, depth, &op) } else { deep_case::<Basic>(&shape, depth, &op) }).expect("spawn");
    match h.join() {
        Ok(line) => println!("DEEP {}", line),
        Err(_) => println!("DEEP panic: harness | thread panicked"),
    }
}

pub fn run(ctx: &Ctx) -> (Acc, String, bool) {
    let (mut acc, rule, ex) = sweep(ctx, Which::C07);
    // ---- deeply nested data, one child process per case; on the overflow-checking build only (its frames are the larger ones)
    if !cfg!(debug_assertions) {
        return (acc, rule, ex);
    }
    let depths: Vec<usize> = if ctx.quick() { vec![1001, 2500] } else { vec![64, 999, 1001, 2500, 4000, 20_000, 100_000] };
    let child_limit = std::time::Duration::from_secs(ctx.pick(8, 120));
    let exe = std::env::current_exe().expect("current_exe");
    let mut cases: Vec<(String, String, usize, String)> = vec![];
    for store in ["simple", "basic"] {
        for shape in SHAPES {
            for depth in &depths {
                for op in OPS {
                    if store == "simple" && (op == "clone-data" || op == "optimize") {
                        continue;
                    }
                    cases.push((store.to_string(), shape.to_string(), *depth, op.to_string()));
                }
            }
            if ctx.quick() {
                // the recursive conversions once more at a depth where an unguarded recursion leaves a 2 MiB stack
                for op in ["cast-text", "cast-bytes", "cast-symbol", "cast-list"] {
                    cases.push((store.to_string(), shape.to_string(), 4000, op.to_string()));
                }
            }
        }
    }
    let results: Vec<(usize, String)> = {
        let next = std::sync::atomic::AtomicUsize::new(0);
        let out = std::sync::Mutex::new(vec![]);
        std::thread::scope(|s| {
            for _ in 0..ctx.threads.max(1) {
                s.spawn(|| loop {
                    let i = next.fetch_add(1, std::sync::atomic::Ordering::SeqCst);
                    if i >= cases.len() {
                        break;
                    }
                    let (store, shape, depth, op) = &cases[i];
                    // a wall-clock limit per child keeps the leg bounded (some conversions of BasicGarnishData are cubic in
                    // the nesting depth); a child stopped by it is counted as slow, never judged
                    let r = std::process::Command::new(&exe)
                        .args(["deep", store, shape, &depth.to_string(), op])
                        .stdout(std::process::Stdio::piped())
                        .stderr(std::process::Stdio::piped())
                        .spawn()
                        .and_then(|mut ch| {
                            let t0 = std::time::Instant::now();
                            loop {
                                if ch.try_wait()?.is_some() {
                                    return ch.wait_with_output().map(Some);
                                }
                                if t0.elapsed() > child_limit {
                                    let _ = ch.kill();
                                    let _ = ch.wait();
                                    return Ok(None);
                                }
                                std::thread::sleep(std::time::Duration::from_millis(5));
                            }
                        });
                    let line = match r {
                        Err(e) => format!("inconclusive: could not start child: {}", e),
                        Ok(None) => "slow: stopped by the per-case wall-clock limit".to_string(),
                        Ok(Some(o)) => {
                            let so = String::from_utf8_lossy(&o.stdout);
                            let se = String::from_utf8_lossy(&o.stderr);
                            match so.lines().find(|l| l.starts_with("DEEP ")) {
                                Some(l) => l[5..].to_string(),
                                None => {
                                    use std::os::unix::process::ExitStatusExt;
                                    let what = if se.contains("overflowed its stack") {
                                        "stack overflow".to_string()
                                    } else if se.contains("memory allocation") {
                                        "allocation failure".to_string()
                                    } else {
                                        format!("signal {:?} code {:?}", o.status.signal(), o.status.code())
                                    };
                                    format!("abort: {}", what)
                                }
                            }
                        }
                    };
                    out.lock().unwrap().push((i, line));
                });
            }
        });
        out.into_inner().unwrap()
    };
    for (i, line) in results {
        let (store, shape, depth, op) = &cases[i];
        acc.evals += 1;
        acc.count("deep_data_cases");
        let what = line.split(':').next().unwrap_or("").to_string();
        acc.count(&format!("deep_{}", what.replace('-', "_")));
        acc.max("deep_data_max_depth", *depth as u64);
        let payload = Json::obj().with("store", Json::s(store)).with("shape", Json::s(shape)).with("depth", Json::i(*depth as i64)).with("op", Json::s(op));
        if line.starts_with("panic") || line.starts_with("abort") {
            // one signature per (kind, store, shape, operation): the smallest failing depth is in the description
            let kind = if line.starts_with("abort") { line.clone() } else { format!("panic: {}", line[7..].split('|').next().unwrap_or("").trim()) };
            acc.violation(
                format!("deep|{}|{}|{}|{}", kind, store, shape, op),
                format!("[{}] {} on a {} nested {} levels deep: {}", store, op, shape, depth, line),
                payload,
            );
        } else if line.starts_with("inconclusive") || line.starts_with("setup-err") {
            acc.count("deep_setup_problems");
        }
    }
    let rule = format!(
        "{} Deep data: {} shapes ({}) nested {:?} levels deep, built iteratively through the data trait, x {} operations (casts to text / bytes / symbol / list, equality and ordering against itself and a separately built copy, concatenation, pairing, internals, type-of, access, apply; clone_data and optimize on BasicGarnishData) x both stores, each in a child process on a 2 MiB thread stack (overflow-checking build; a child running longer than its wall-clock limit is counted as slow and not judged): a panic or an abort (stack overflow) is a violation, Err is not.",
        rule,
        SHAPES.len(),
        SHAPES.join(", "),
        depths,
        OPS.len()
    );
    (acc, rule, ex)
}

pub const ASSUMPTIONS: &[&str] = &[
    "a step budget bounds every execution (2000 quick / 10000 thorough); Err results are acceptable, only unwinding or aborting is a violation",
    "run under both the overflow-checking (mon) and the release profile",
    "deep-data cases run on a 2 MiB stack (the default of a spawned Rust thread); a stack overflow there is an abort of the host",
];
