//! C01 Compiled programs compute what the source means.

use crate::ast::{all_of_size, loop_program, rand_program, GenCfg, E};
use crate::pipe::Fail;
use crate::pool::{concat, kv, list, sym_u};
use crate::prog::{printer_selfcheck, real, reference, script_host, stage_name, RealOutcome, RunCfg};
use crate::run::{run_cases, Acc, Ctx};
use crate::store::{Basic, Simple, Store};
use crate::util::{fnv_str, panic_site, Json, Rng};
use crate::value::{Mk, V};
use std::collections::HashMap;

pub fn inputs() -> Vec<V> {
    vec![
        V::Unit,
        V::Int(3),
        list(vec![kv("x", V::Int(1)), kv("y", V::str("s"))]),
        V::pair(V::sym("x"), V::Int(4)),
        list(vec![V::Int(10), V::Int(20), V::Int(30)]),
        concat(list(vec![kv("x", V::Int(7))]), list(vec![kv("zed", V::Int(8)), V::Int(9)])),
        V::str("héllo"),
        V::Char('c'),
        V::True,
        V::Float(1.5),
        // slices: positions 1..=2 of a keyed list, a slice of a concatenation that starts at its first item, a text slice
        crate::pool::slice(list(vec![kv("y", V::Int(0)), kv("x", V::Int(11)), kv("zed", V::Int(12)), kv("w", V::Int(13))]), 1, 2),
        crate::pool::slice(concat(list(vec![kv("x", V::Int(21)), kv("y", V::Int(22))]), list(vec![kv("zed", V::Int(23)), V::Int(24)])), 0, 2),
        crate::pool::slice(V::str("héllo"), 1, 3),
    ]
}

pub fn host_resolves() -> HashMap<u64, V> {
    let mut m = HashMap::new();
    m.insert(sym_u("w"), V::Int(42));
    m.insert(sym_u("zed"), list(vec![V::Int(1), V::Int(2)]));
    m
}

pub fn shape(e: &E, depth: usize) -> String {
    let name = |e: &E| -> String {
        match e {
            E::Int(_) => "Int".into(),
            E::Float(_) => "Float".into(),
            E::Str(_) => "Str".into(),
            E::Sym(_) => "Sym".into(),
            E::Unit => "Unit".into(),
            E::True => "True".into(),
            E::False => "False".into(),
            E::Input => "$".into(),
            E::Ident(_) => "Ident".into(),
            E::Prop(_) => "Prop".into(),
            E::Un(u, _) => format!("{:?}", u),
            E::Bin(b, _, _) => format!("{:?}", b),
            E::List(xs) => format!("List{}", xs.len()),
            E::Comma(xs, t) => format!("Comma{}{}", xs.len(), if *t { "t" } else { "" }),
            E::Group(_) => "Group".into(),
            E::Nested(_) => "Nested".into(),
            E::Cond(a, e) => format!("Cond{}{}", a.len(), if e.is_some() { "e" } else { "" }),
            E::Seq(xs, s) => format!("Seq{}{}", xs.len(), if *s { ";" } else { "nl" }),
            E::Effect(..) => "Effect".into(),
            E::Reapply(_) => "Reapply".into(),
        }
    };
    if depth == 0 {
        return name(e);
    }
    let kids: Vec<&E> = match e {
        E::Un(_, x) | E::Group(x) | E::Nested(x) | E::Reapply(x) => vec![&**x],
        E::Bin(_, a, b) | E::Effect(a, b) => vec![&**a, &**b],
        E::List(xs) | E::Comma(xs, _) | E::Seq(xs, _) => xs.iter().collect(),
        E::Cond(arms, els) => {
            let mut v: Vec<&E> = vec![];
            for (_, c, a) in arms {
                v.push(c);
                v.push(a);
            }
            if let Some(x) = els {
                v.push(x);
            }
            v
        }
        _ => vec![],
    };
    if kids.is_empty() { name(e) } else { format!("{}({})", name(e), kids.iter().map(|k| shape(k, depth - 1)).collect::<Vec<_>>().join(",")) }
}

pub fn children(e: &E) -> Vec<&E> {
    match e {
        E::Un(_, x) | E::Group(x) | E::Nested(x) => vec![&**x],
        E::Bin(_, a, b) => {
            let mut v = vec![&**a];
            if !matches!(**b, E::Prop(_)) {
                v.push(&**b);
            }
            v
        }
        E::Effect(a, b) => vec![&**a, &**b],
        E::List(xs) | E::Comma(xs, _) | E::Seq(xs, _) => xs.iter().collect(),
        E::Cond(arms, els) => {
            let mut v: Vec<&E> = vec![];
            for (_, c, a) in arms {
                v.push(c);
                v.push(a);
            }
            if let Some(x) = els {
                v.push(x);
            }
            v
        }
        _ => vec![],
    }
}

pub fn has_reapply(e: &E) -> bool {
    matches!(e, E::Reapply(_)) || children(e).iter().any(|c| has_reapply(c)) || matches!(e, E::Reapply(_))
}

/// one program, one input, one store: Some((class, description)) on disagreement
pub fn disagreement<D: Store + Mk>(e: &E, input: &V, resolves: &HashMap<u64, V>, max_steps: u64, acc: &mut Acc) -> Option<(String, String)> {
    let src = e.print();
    let r = reference(e, input, resolves, 20_000);
    if r.tainted {
        acc.count("outside_pinned_semantics_skipped");
        return None;
    }
    let want = match &r.value {
        Ok(v) => v.clone(),
        Err(_) => {
            acc.count("reference_budget");
            return None;
        }
    };
    let cfg = RunCfg { max_steps, host: script_host(resolves) };
    let run = real::<D>(&src, input, &cfg);
    acc.evals += 1;
    acc.add("steps_executed", run.steps);
    match &run.outcome {
        RealOutcome::CompileFail(Fail::Panic(st, msg, loc)) | RealOutcome::RunFail(Fail::Panic(st, msg, loc)) => {
            Some((format!("panic|{}|{}", panic_site(loc), stage_name(st)), format!("[{}] {:?} with $ = {} panicked in {}: {} at {}", D::NAME, src, input.show(), stage_name(st), msg, loc)))
        }
        RealOutcome::CompileFail(Fail::Err(st, e2)) => Some((
            format!("rejected|{}|{}", stage_name(st), D::NAME),
            format!("[{}] well-formed program {:?} is rejected by {}: {}", D::NAME, src, stage_name(st), e2),
        )),
        RealOutcome::RunFail(Fail::Err(_, e2)) => {
            if want.has_unknown() {
                acc.count("unknown_expected_skipped");
                return None;
            }
            Some((
                format!("err|run|{}", D::NAME),
                format!("[{}] {:?} with $ = {} fails at run time ({}) but means {}", D::NAME, src, input.show(), e2, want.show()),
            ))
        }
        RealOutcome::StepLimit => {
            acc.count("step_limit");
            None
        }
        RealOutcome::SetupFail(s) => {
            acc.count("setup_failed");
            acc.seen("setup_failures", s.chars().take(60).collect::<String>());
            None
        }
        RealOutcome::Value(Err(e2)) => Some((format!("unreadable|{}", D::NAME), format!("[{}] {:?}: result unreadable: {}", D::NAME, src, e2))),
        RealOutcome::Value(Ok(got)) => {
            if want.has_unknown() {
                acc.count("unknown_expected_skipped");
                return None;
            }
            acc.count("values_compared");
            if !run.m.shadow_errors.is_empty() {
                return Some((format!("store-shadow|{}", D::NAME), format!("[{}] {:?}: {}", D::NAME, src, run.m.shadow_errors[0])));
            }
            let strict = |a: &V, b: &V| a == b && a.show() == b.show();
            if !strict(got, &want) {
                return Some((
                    format!("wrong-value|{}", D::NAME),
                    format!("[{}] {:?} with $ = {} evaluates to {} but means {}", D::NAME, src, input.show(), got.show(), want.show()),
                ));
            }
            None
        }
    }
}

/// smallest sub-expression on which the same class of disagreement shows
fn minimise<'e, D: Store + Mk>(e: &'e E, input: &V, resolves: &HashMap<u64, V>, class: &str) -> &'e E {
    let mut cur = e;
    loop {
        let mut next = None;
        for c in children(cur) {
            if has_reapply(c) {
                continue;
            }
            let mut dummy = Acc::default();
            if let Some((k, _)) = disagreement::<D>(c, input, resolves, 5_000, &mut dummy) {
                if k == class {
                    next = Some(c);
                    break;
                }
            }
        }
        match next {
            Some(c) => cur = c,
            None => return cur,
        }
    }
}

pub fn check_program(e: &E, input: &V, resolves: &HashMap<u64, V>, max_steps: u64, acc: &mut Acc) {
    let src = e.print();
    if let Err(msg) = printer_selfcheck(e, &src) {
        // the generated text does not denote the AST: a generator/printer limitation, case dropped
        acc.count("printer_selfcheck_failed");
        acc.seen("printer_selfcheck_samples", msg.chars().take(160).collect::<String>());
        return;
    }
    acc.seen("top_constructs", shape(e, 0));
    let d1 = disagreement::<Simple>(e, input, resolves, max_steps, acc);
    let d2 = disagreement::<Basic>(e, input, resolves, max_steps, acc);
    for (which, d) in [(0, d1), (1, d2)] {
        if let Some((class, desc)) = d {
            let seen = acc.counters.get(&format!("raw::{}", class)).cloned().unwrap_or(0);
            acc.count(&format!("raw::{}", class));
            if seen >= 40 {
                continue;
            }
            let min = if has_reapply(e) { e } else if which == 0 { minimise::<Simple>(e, input, resolves, &class) } else { minimise::<Basic>(e, input, resolves, &class) };
            let in_t = crate::pool::tname(input.type_of());
            acc.violation(
                format!("{}|{}|$:{}", class, shape(min, 2), if min.print().contains('$') || matches!(min, E::Ident(_)) { in_t } else { "-".into() }),
                format!("{} [minimal sub-program {:?}]", desc, min.print()),
                Json::obj().with("source", Json::s(src.clone())).with("input", input.json()).with("minimal", Json::s(min.print())),
            );
        }
    }
}

pub fn run(ctx: &Ctx) -> (Acc, String, bool) {
    let k = ctx.pick(3usize, 4usize);
    let mut cache: Vec<Vec<E>> = vec![vec![]];
    let mut small: Vec<E> = vec![];
    for n in 1..=k {
        small.extend(all_of_size(n, &mut cache));
    }
    let ins = inputs();
    let resolves = host_resolves();
    let n_small = small.len() as u64;
    let ex_inputs: Vec<usize> = if ctx.quick() { vec![0, 2, 4, 11] } else { (0..ins.len()).collect() };
    let ex_total = n_small * ex_inputs.len() as u64;
    // hand-written regression programs (witnesses of past findings), always run on every input
    let fixed: Vec<E> = {
        use crate::ast::{Bin, Un};
        let tis = |e: E| E::Un(Un::Tis, e.b());
        let chain = |c: E, a: E, els: E| E::Group(E::Cond(vec![(false, c, a)], Some(els.b())).b());
        vec![
            E::Bin(Bin::And, E::Int(1).b(), chain(E::Int(1), E::Unit, tis(E::Int(1))).b()),
            E::Bin(Bin::Or, E::Unit.b(), chain(E::Int(1), E::Int(5), tis(E::False)).b()),
            E::Bin(Bin::And, E::True.b(), chain(E::False, E::Int(5), tis(E::Int(0))).b()),
            E::Bin(Bin::Access, E::Group(E::List(vec![E::Int(1), E::Int(2)]).b()).b(), E::Int(5).b()),
            E::Bin(Bin::Access, E::Group(E::Comma(vec![E::Int(1), E::Bin(Bin::Pair, E::Sym("x".into()).b(), E::Int(2).b())], false).b()).b(), E::Prop("x".into()).b()),
            E::Bin(Bin::Access, E::Str("abc".into()).b(), E::Sym("x".into()).b()),
            E::Bin(Bin::Shl, E::Int(1).b(), E::Int(32).b()),
            E::Effect(E::Int(1).b(), E::Effect(E::Int(2).b(), E::Int(3).b()).b()),
            E::Un(Un::LengthInternal, E::Str("é".into()).b()),
        ]
    };
    let fixed_total = (fixed.len() * ins.len()) as u64;
    let loops: u64 = 9 * 8;
    let random_total: u64 = ctx.pick(400_000, 20_000_000);
    let seed = ctx.seed;
    let cfg = GenCfg::default();
    let acc = run_cases(ctx, ex_total + loops + random_total + fixed_total, |i, acc| {
        if i >= ex_total + loops + random_total {
            let j = (i - ex_total - loops - random_total) as usize;
            check_program(&fixed[j / ins.len()], &ins[j % ins.len()], &resolves, 5_000, acc);
            acc.nontrivial += 1;
            return;
        }
        if i < ex_total {
            let e = &small[(i / ex_inputs.len() as u64) as usize];
            let input = &ins[ex_inputs[(i % ex_inputs.len() as u64) as usize]];
            check_program(e, input, &resolves, 5_000, acc);
            acc.nontrivial += 1;
            if i % 50_021 == 0 {
                acc.sample(Json::s(format!("{:?} with $ = {}", e.print(), input.show())));
            }
        } else if i < ex_total + loops {
            let j = i - ex_total;
            let e = loop_program((j / 8) as i32, (j % 8) as usize);
            check_program(&e, &V::Unit, &resolves, 20_000, acc);
            acc.nontrivial += 1;
            acc.count("reapply_loop_programs");
        } else {
            let mut r = Rng::for_case(seed, i);
            let depth = 2 + r.below(ctx.pick(4, 5));
            let e = rand_program(&mut r, depth, &cfg);
            let input = r.pick(&ins).clone();
            acc.distinct.insert(fnv_str(&format!("{}|{}", e.print(), input.show())));
            acc.max("program_nodes", e.size() as u64);
            check_program(&e, &input, &resolves, 20_000, acc);
            if i % 10_007 == 0 {
                acc.sample(Json::s(format!("random {:?} with $ = {}", e.print(), input.show())));
            }
        }
    });
    let rule = format!(
        "exhaustive: every core-language AST with <= {} nodes over 12 atoms (numbers, text, symbol, (), $?, $!, $, identifiers x y), 25 binary and 10 unary operators, space/comma lists, nested expressions, conditionals (with else from 4 nodes), both separators and side-effect blocks = {} programs x {} input values; 72 bounded reapply loops (0..8 iterations x 8 templates: restart from a branch, through brackets, through a conditional in brackets, from a logical operand, from the else position, from a nested expression); {} random programs (depth <= {}) x random input. Each is printed with minimal parentheses (printer self-checked against the reference parser), run on both stores under a scripted host, and its value compared strictly with the reference evaluator's.",
        k,
        n_small,
        ex_inputs.len(),
        random_total,
        ctx.pick(5, 6)
    );
    (acc, rule, false)
}

pub const ASSUMPTIONS: &[&str] = &[
    "S-rules of DESIGN §3.4 as implemented in eval.rs are the meaning of the core language; where the rules do not pin a result (slices, ranges, symbol-list merges, float `//` beyond i32, shifts that move bits out, duplicate keys, else-chain ending in a failing conditional) the reference answers 'unknown' and the case is not compared",
    "programs are generated from the AST so that known findings are not re-reported here: side-effect blocks always follow a value, chains of conditionals end with an else, reapply appears only in loop templates",
    "expression values are compared by the position of their `{` in the source",
];
