//! C06 Evaluation is stack-balanced on every path: abstract interpretation of every built stream
//! (static) + arity check of every executed step against DESIGN Appendix A (dynamic).

use crate::mon::{Host, Mon};
use crate::pipe::{start, step, Fail};
use crate::props::sweep::{accept, front, minimize, Accepted, Which};
use crate::run::{Acc, Ctx};
use crate::store::{Basic, Simple, Store};
use crate::util::{panic_site, Json};
use crate::value::Mk;
use garnish_lang_compiler::lex::TokenType as T;
use garnish_lang_traits::{GarnishData, GarnishDataType, Instruction as I};

/// (pops, pushes) for instructions with a fixed effect; None = handled specially
fn fixed_effect(ins: I, data: Option<usize>) -> Option<(i64, i64)> {
    Some(match ins {
        I::Put | I::PutValue | I::Resolve => (0, 1),
        I::PushValue | I::UpdateValue => (1, 0),
        I::StartSideEffect => (0, 0),
        I::EndSideEffect => (1, 0),
        I::Opposite | I::AbsoluteValue | I::BitwiseNot | I::Not | I::Tis | I::TypeOf | I::AccessLeftInternal | I::AccessRightInternal | I::AccessLengthInternal => (1, 1),
        I::Add
        | I::Subtract
        | I::Multiply
        | I::Divide
        | I::IntegerDivide
        | I::Power
        | I::Remainder
        | I::BitwiseAnd
        | I::BitwiseOr
        | I::BitwiseXor
        | I::BitwiseShiftLeft
        | I::BitwiseShiftRight
        | I::Xor
        | I::TypeEqual
        | I::ApplyType
        | I::Equal
        | I::NotEqual
        | I::LessThan
        | I::LessThanOrEqual
        | I::GreaterThan
        | I::GreaterThanOrEqual
        | I::MakePair
        | I::Access
        | I::MakeRange
        | I::MakeStartExclusiveRange
        | I::MakeEndExclusiveRange
        | I::MakeExclusiveRange
        | I::Concat
        | I::PartialApply => (2, 1),
        I::MakeList => (data.unwrap_or(0) as i64, 1),
        I::JumpTo => (0, 0),
        I::JumpIfTrue | I::JumpIfFalse => (1, 0),
        _ => return None,
    })
}

/// static part: every path reaches an instruction with the same pending-operand depth
pub fn static_problem<D: Store + Mk>(a: &Accepted<D>) -> Option<(String, String)> {
    let m = &a.m;
    let n = a.i1;
    let mut depth: Vec<Option<i64>> = vec![None; n];
    let mut work: Vec<(usize, i64, &'static str)> = vec![];
    let entry = m.get_from_jump_table(*a.build.jump_index())?;
    work.push((entry, 0, "program entry"));
    // nested expressions created by this build start their own frame at depth 0
    for (kind, addr) in &m.data_log {
        if *kind == "expression" {
            if let Ok(j) = m.get_expression(*addr) {
                if let Some(t) = m.get_from_jump_table(j) {
                    work.push((t, 0, "expression entry"));
                }
            }
        }
    }
    let mut guard = 0usize;
    while let Some((pc, d, via)) = work.pop() {
        guard += 1;
        if guard > 64 * (n + 4) {
            return Some(("static|analysis-diverged".into(), "abstract interpretation did not converge".into()));
        }
        if pc < a.i0 || pc >= n {
            return Some((format!("static|falls-off|via:{}", via), format!("control reaches instruction {} outside the program {}..{} ({})", pc, a.i0, n, via)));
        }
        match depth[pc] {
            Some(x) if x == d => continue,
            Some(x) => {
                let ins = m.get_instruction(pc).map(|x| x.0);
                return Some((
                    format!("static|inconsistent-depth|at:{:?}|via:{}", ins.unwrap_or(I::Invalid), via),
                    format!("instruction {} ({:?}) is reached with {} pending operands on one path and {} on another ({})", pc, ins, x, d, via),
                ));
            }
            None => depth[pc] = Some(d),
        }
        let (ins, data) = m.get_instruction(pc)?;
        let neg = |need: i64| -> Option<(String, String)> {
            if d < need {
                Some((format!("static|underflow|at:{:?}", ins), format!("instruction {} ({:?}) needs {} operands but only {} are pending", pc, ins, need, d)))
            } else {
                None
            }
        };
        match ins {
            I::EndExpression => {
                if d != 1 {
                    return Some((format!("static|end-expression-depth:{}", d.clamp(-1, 3)), format!("EndExpression at {} is reached with {} pending operands (exactly one expected)", pc, d)));
                }
            }
            I::JumpTo => {
                let t = data.and_then(|j| m.get_from_jump_table(j))?;
                work.push((t, d, "JumpTo"));
            }
            I::JumpIfTrue | I::JumpIfFalse => {
                if let Some(p) = neg(1) {
                    return Some(p);
                }
                let t = data.and_then(|j| m.get_from_jump_table(j))?;
                work.push((pc + 1, d - 1, "conditional fall-through"));
                work.push((t, d - 1, "conditional jump"));
            }
            I::And | I::Or => {
                if let Some(p) = neg(1) {
                    return Some(p);
                }
                let t = data.and_then(|j| m.get_from_jump_table(j))?;
                work.push((pc + 1, d, "logical fall-through"));
                work.push((t, d - 1, "logical jump"));
            }
            I::Apply => {
                if let Some(p) = neg(2) {
                    return Some(p);
                }
                work.push((pc + 1, d - 1, "next"));
            }
            I::EmptyApply => {
                if let Some(p) = neg(1) {
                    return Some(p);
                }
                work.push((pc + 1, d, "next"));
            }
            I::Reapply => {
                if let Some(p) = neg(1) {
                    return Some(p);
                }
                let t = data.and_then(|j| m.get_from_jump_table(j))?;
                work.push((t, d - 1, "Reapply"));
            }
            other => match fixed_effect(other, data) {
                Some((pops, pushes)) => {
                    if let Some(p) = neg(pops) {
                        return Some(p);
                    }
                    work.push((pc + 1, d - pops + pushes, "next"));
                }
                None => return Some((format!("static|unknown-instruction|{:?}", other), format!("no effect known for {:?}", other))),
            },
        }
    }
    None
}

/// dynamic part: run and compare every step with the arity table
pub fn dynamic_problem<D: Store + Mk>(mut a: Accepted<D>, max_steps: u64, acc: &mut Acc) -> Option<(String, String)> {
    a.m.host = Host::declining();
    a.m.max_instr = usize::MAX;
    a.m.max_data = a.d0 + 10_000;
    // a restart that doubles a concatenation makes later look-ups exponential: bounded number of cell reads per run
    a.m.max_reads = a.m.reads.get() + 1_000_000;
    let unit = a.m.add_unit().ok()?;
    start(&mut a.m, *a.build.jump_index(), unit).ok()?;
    let (r0, v0, f0) = (a.m.depth(), a.m.vals.len(), a.m.frames.len());
    let mut n = 0u64;
    loop {
        if n >= max_steps {
            acc.count("step_limit");
            return None;
        }
        let pc = a.m.get_instruction_cursor();
        let (ins, data) = match a.m.get_instruction(pc) {
            Some(x) => x,
            None => break,
        };
        let (rb, vb, fb) = (a.m.depth() as i64, a.m.vals.len() as i64, a.m.frames.len() as i64);
        let above = a.m.depth_above_frame() as i64;
        // operand types needed to predict Apply
        let callee_enters = |m: &Mon<D>, pos_from_top: usize| -> bool {
            let i = m.regs.len().checked_sub(pos_from_top + 1);
            match i.and_then(|i| m.regs.get(i)) {
                Some(addr) => match m.get_data_type(*addr) {
                    Ok(GarnishDataType::Expression) => true,
                    Ok(GarnishDataType::Partial) => match m.get_partial(*addr) {
                        Ok((e, _)) => matches!(m.get_data_type(e), Ok(GarnishDataType::Expression)),
                        _ => false,
                    },
                    _ => false,
                },
                None => false,
            }
        };
        let enters = match ins {
            I::Apply => callee_enters(&a.m, 1),
            I::EmptyApply => callee_enters(&a.m, 0),
            _ => false,
        };
        if ins == I::EndExpression && above != 1 {
            return Some((
                format!("dynamic|end-expression-depth:{}", above.clamp(-1, 3)),
                format!("[{}] EndExpression at {} executes with {} pending operands above the frame (exactly one expected)", D::NAME, pc, above),
            ));
        }
        acc.seen("executed_instruction_kinds", format!("{:?}", ins));
        let out = step(&mut a.m);
        a.m.refresh_top_value();
        n += 1;
        let (ra, va, fa) = (a.m.depth() as i64, a.m.vals.len() as i64, a.m.frames.len() as i64);
        let running = match out {
            Ok(r) => r,
            Err(Fail::Err(_, e)) => {
                if e.contains("No references in register") || e.contains("Not enough register") || e.contains("Could not pop") {
                    return Some((format!("dynamic|underflow|{:?}", ins), format!("[{}] {:?} at {} found too few operands: {}", D::NAME, ins, pc, e)));
                }
                acc.count("ended_with_err");
                return None;
            }
            Err(Fail::Panic(_, _, loc)) => {
                acc.count("panicked_not_judged_here");
                let _ = panic_site(&loc);
                return None;
            }
        };
        if !a.m.shadow_errors.is_empty() {
            return Some((format!("dynamic|store-shadow|{:?}", ins), format!("[{}] after {:?} at {}: {}", D::NAME, ins, pc, a.m.shadow_errors[0])));
        }
        // expected deltas
        let (dr, dv, df): (i64, i64, i64) = match ins {
            I::Apply => {
                if enters {
                    (-2, 1, 1)
                } else {
                    (-1, 0, 0)
                }
            }
            I::EmptyApply => {
                if enters {
                    (-1, 1, 1)
                } else {
                    (0, 0, 0)
                }
            }
            I::And | I::Or => {
                let jumped = a.m.get_instruction_cursor() != pc + 1;
                if jumped { (-1, 0, 0) } else { (0, 0, 0) }
            }
            I::EndExpression => {
                if fb > 0 {
                    // operands above the frame are discarded, one result is handed to the caller
                    let base = rb - above;
                    (base + 1 - rb, -1, -1)
                } else {
                    // program end: the result becomes the current value
                    (if D::FRAMES_IN_REGISTERS { -rb } else { -1 }, 0, 0)
                }
            }
            I::PushValue => (-1, 1, 0),
            I::UpdateValue => (-1, 0, 0),
            I::StartSideEffect => (0, 1, 0),
            I::EndSideEffect => (-1, -1, 0),
            I::Reapply => (-1, 0, 0),
            other => match fixed_effect(other, data) {
                Some((p, q)) => (q - p, 0, 0),
                None => (0, 0, 0),
            },
        };
        if (ra - rb, va - vb, fa - fb) != (dr, dv, df) {
            return Some((
                format!("dynamic|arity|{:?}|got:{},{},{}|want:{},{},{}", ins, ra - rb, va - vb, fa - fb, dr, dv, df),
                format!(
                    "[{}] {:?} at {} changed (operands, input values, frames) by ({}, {}, {}), the instruction table says ({}, {}, {})",
                    D::NAME,
                    ins,
                    pc,
                    ra - rb,
                    va - vb,
                    fa - fb,
                    dr,
                    dv,
                    df
                ),
            ));
        }
        acc.max("operand_depth", ra as u64);
        acc.max("frame_depth", fa as u64);
        if !running {
            break;
        }
    }
    acc.count("ran_to_end");
    acc.add("steps_checked", n);
    let (r1, v1, f1) = (a.m.depth(), a.m.vals.len(), a.m.frames.len());
    if (r1, v1, f1) != (r0, v0, f0) {
        return Some((
            format!("dynamic|not-restored|regs:{}|vals:{}|frames:{}", r1 as i64 - r0 as i64, v1 as i64 - v0 as i64, f1 as i64 - f0 as i64),
            format!("[{}] after completion the (operand, input-value, frame) depths are ({}, {}, {}), initially ({}, {}, {})", D::NAME, r1, v1, f1, r0, v0, f0),
        ));
    }
    None
}

fn raw(src: &str, max_steps: u64, acc: &mut Acc) -> Option<(String, String)> {
    let (toks, parsed) = front(src)?;
    if toks.iter().any(|t| t.get_token_type() == T::ExpressionTerminator) {
        acc.count("skipped_expression_terminator");
        return None;
    }
    let a = accept::<Simple>(&parsed, toks.len())?;
    acc.count("accepted");
    if let Some(p) = static_problem(&a) {
        return Some(p);
    }
    acc.count("static_ok");
    if let Some(p) = dynamic_problem(a, max_steps, acc) {
        return Some(p);
    }
    let b = accept::<Basic>(&parsed, toks.len())?;
    dynamic_problem(b, max_steps, acc)
}

fn key(src: &str) -> Option<String> {
    // the minimiser keeps the failure class AND the structural root cause of the candidate, so a
    // witness cannot drift from one cause into another that happens to share the class
    let mut d = Acc::default();
    raw(src, 2000, &mut d).map(|x| format!("{}#{}", x.0, root_cause(src, &x.0).unwrap_or_default()))
}

pub fn judge(src: &str, kind: &str, max_steps: u64, acc: &mut Acc) {
    acc.evals += 1;
    if let Some((class, desc)) = raw(src, max_steps, acc) {
        let seen = acc.counters.get(&format!("raw::{}", class)).cloned().unwrap_or(0);
        acc.count(&format!("raw::{}", class));
        if seen < 6 {
            let witness = minimize(src, &key);
            let sig = match root_cause(&witness, &class) {
                Some(rc) => format!("{}|{}", class.split('|').next().unwrap_or("static"), rc),
                None => format!("{}|{}", class, witness),
            };
            acc.violation(
                sig,
                format!("{:?} (minimised {:?}, corpus {}): {}", src.chars().take(200).collect::<String>(), witness, kind, desc),
                Json::obj().with("input", Json::s(src)).with("witness", Json::s(witness.clone())).with("corpus", Json::s(kind)),
            );
        }
    }
}

/// structural root causes that are recorded findings: decided on the minimised witness's tree
fn root_cause(witness: &str, class: &str) -> Option<String> {
    use garnish_lang_compiler::parse::Definition as Df;
    let (_toks, parsed) = front(witness)?;
    let nodes = parsed.get_nodes();
    if nodes.is_empty() {
        return Some("empty-program-ends-with-no-value".into());
    }
    if nodes.iter().any(|n| n.get_definition() == Df::SideEffect && n.get_right().is_none()) {
        return Some("empty-side-effect-block".into());
    }
    if nodes.iter().any(|n| n.get_definition() == Df::Group && n.get_right().is_none()) {
        return Some("empty-group-yields-no-value".into());
    }
    // a side-effect block with nothing before it in its expression: treated as an operand, yields no value
    let value_like = |d: Df| d.is_value_like();
    if nodes.iter().any(|n| {
        n.get_definition() == Df::SideEffect && n.get_right().is_some() && n.get_parent().and_then(|p| nodes.get(p)).map(|p| !value_like(p.get_definition()) && p.get_definition() != Df::SideEffect).unwrap_or(true)
    }) {
        return Some("side-effect-block-in-operand-position".into());
    }
    // else-chain whose last link is a conditional: no arm matching leaves no value
    if class.contains("EndExpression") || class.contains("end-expression") || class.contains("via:conditional") {
        let ends_cond = nodes.iter().any(|n| {
            n.get_definition() == Df::ElseJump && n.get_right().and_then(|r| nodes.get(r)).map(|r| matches!(r.get_definition(), Df::JumpIfTrue | Df::JumpIfFalse)).unwrap_or(false)
        });
        // every else in the witness continues a conditional: an else after anything else is a different defect
        let proper_chains = nodes.iter().all(|n| {
            n.get_definition() != Df::ElseJump || n.get_left().and_then(|l| nodes.get(l)).map(|l| matches!(l.get_definition(), Df::JumpIfTrue | Df::JumpIfFalse | Df::ElseJump)).unwrap_or(false)
        });
        if ends_cond && proper_chains && !class.contains("depth:2") {
            return Some("else-chain-ends-with-conditional".into());
        }
    }
    if class.contains("inconsistent-depth") && nodes.iter().any(|n| n.get_definition() == Df::Reapply) {
        // (the inconsistency is noticed at the restart jump itself or, when the restarted entry is reached
        // first, at the next join after it: same cause)
        // a reapply that is not the whole arm/expression: operands pending around it are carried into the restart
        let pending = nodes.iter().enumerate().any(|(_, n)| {
            if n.get_definition() != Df::Reapply {
                return false;
            }
            let mut cur = n.get_parent();
            while let Some(p) = cur {
                match nodes[p].get_definition() {
                    Df::JumpIfTrue | Df::JumpIfFalse | Df::ElseJump | Df::Subexpression | Df::ExpressionSeparator | Df::NestedExpression | Df::Group => cur = nodes[p].get_parent(),
                    _ => return true,
                }
            }
            false
        });
        if pending {
            return Some("reapply-with-pending-operands".into());
        }
    }
    None
}

pub fn run(ctx: &Ctx) -> (Acc, String, bool) {
    let (mut acc, rule, ex) = crate::props::sweep::run(ctx, Which::C06);
    // reapply loops: constant depth for 1, 2, 4, 8, 64 iterations
    for tmpl in ["{{ $ >= {N} ?> $ |> ^~ ($ + 1) }} <~ 0", "{{ $ < {N} ?> ^~ ($ + 1) |> $ }} <~ 0", "{{ $ < {N} ?> ^~ ($ + 1)\n\n$ }} <~ 0"] {
        let mut marks: Vec<(u64, u64, u64)> = vec![];
        for n in [1u64, 2, 4, 8, 64] {
            let src = tmpl.replace("{N}", &n.to_string()).replace("{{", "{").replace("}}", "}");
            let mut local = Acc::default();
            if let Some((toks, parsed)) = front(&src) {
                for which in 0..2 {
                    let p = if which == 0 {
                        accept::<Simple>(&parsed, toks.len()).and_then(|a| dynamic_problem(a, 100_000, &mut local))
                    } else {
                        accept::<Basic>(&parsed, toks.len()).and_then(|a| dynamic_problem(a, 100_000, &mut local))
                    };
                    if let Some((c, d)) = p {
                        acc.violation(format!("{}|reapply-loop", c), format!("{:?}: {}", src, d), Json::obj().with("input", Json::s(src.clone())));
                    }
                }
            }
            acc.evals += 2;
            acc.add("reapply_loop_steps", local.counters.get("steps_checked").cloned().unwrap_or(0));
            marks.push((n, local.maxes.get("operand_depth").cloned().unwrap_or(0), local.maxes.get("frame_depth").cloned().unwrap_or(0)));
        }
        acc.sample(Json::s(format!("reapply template {:?}: (iterations, max operand depth, max frame depth) = {:?}", tmpl, marks)));
        let first = (marks[0].1, marks[0].2);
        if marks.iter().any(|m| (m.1, m.2) != first) {
            acc.violation(
                "dynamic|reapply-depth-grows".to_string(),
                format!("reapply loop {:?}: high-water marks depend on the iteration count: {:?}", tmpl, marks),
                Json::obj().with("template", Json::s(tmpl)),
            );
        }
        if marks.iter().any(|m| m.1 == 0) {
            acc.inconclusive.push(format!("reapply template {:?} did not run", tmpl));
        }
    }
    (acc, format!("{} Static: abstract interpretation of the built stream over all paths; dynamic: every executed step compared with the instruction effect table, final depths compared with the initial ones, on both stores; programs containing `;;` are skipped; plus 3 reapply-loop templates run for 1,2,4,8,64 iterations comparing stack high-water marks.", rule), ex)
}

pub const ASSUMPTIONS: &[&str] = &[
    "instruction effect table of DESIGN Appendix A (validated at run time: a wrong entry shows up as a false alarm on the unchanged tree)",
    "programs using the bare expression terminator `;;` are excluded, as the property says",
];
