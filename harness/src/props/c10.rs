//! C10 One notion of truth; conditionals and logic evaluate only what they must.
//!
//! (a) truth matrix: every value type (empty and non-empty representatives, supplied as `$`) x every
//!     testing construct, through the whole pipeline and at instruction level; the oracle is the
//!     two-line rule "false iff unit or `$!`", not the reference evaluator.
//! (b) evaluation monitor: programs whose conditions, arms and operands are identifiers that only the
//!     scripted host can answer, so every evaluation is a `resolve` event; the recorded sequence must
//!     be the one the reference evaluator produces (right operands only when needed, only the selected
//!     arm, conditions in order, at most one arm).

use crate::ast::{rand_program, well_formed, Bin, GenCfg, Un, E};
use crate::hostlog::{disagreement, Checked, HostCfg};
use crate::mon::{Host, Mon};
use crate::pipe::{exec_one, Fail};
use crate::pool::{kv, list, reps, sym_u, tname};
use crate::prog::{printer_selfcheck, real_in, RealOutcome, RunCfg};
use crate::props::c01::{children, has_reapply, shape};
use crate::props::prep_expr0;
use crate::run::{run_cases, Acc, Ctx};
use crate::store::{Basic, Simple, Store};
use crate::util::{fnv_str, Json, Rng};
use crate::value::{all_types, Mk, V};
use garnish_lang_traits::Instruction as I;
use std::collections::HashMap;

fn truthy(v: &V) -> bool {
    !matches!(v, V::Unit | V::False)
}
fn b(x: bool) -> V {
    if x {
        V::True
    } else {
        V::False
    }
}

/// (source over `$`, what it must evaluate to given the truth of `$`)
fn constructs() -> Vec<(&'static str, fn(bool, &V) -> V)> {
    vec![
        ("$ ?> 1 |> 2", |t, _v| if t { V::Int(1) } else { V::Int(2) }),
        ("$ !> 1 |> 2", |t, _v| if t { V::Int(2) } else { V::Int(1) }),
        // a conditional that is not taken and has no else leaves the input value as the result
        ("$ ?> 1", |t, v| if t { V::Int(1) } else { v.clone() }),
        ("$ !> 1", |t, v| if t { v.clone() } else { V::Int(1) }),
        ("$ ?> 1 |> $ ?> 2 |> 3", |t, _v| if t { V::Int(1) } else { V::Int(3) }),
        ("$ !> 1 |> $ ?> 2 |> 3", |t, _v| if t { V::Int(2) } else { V::Int(1) }),
        ("$ && $?", |t, _v| b(t)),
        ("$? && $", |t, _v| b(t)),
        ("$ && $", |t, _v| b(t)),
        ("$ && $!", |_t, _v| V::False),
        ("$ || $!", |t, _v| b(t)),
        ("$! || $", |t, _v| b(t)),
        ("() || $", |t, _v| b(t)),
        ("$ || $", |t, _v| b(t)),
        ("$ || $?", |_t, _v| V::True),
        ("$ ^^ $!", |t, _v| b(t)),
        ("$ ^^ ()", |t, _v| b(t)),
        ("$ ^^ $?", |t, _v| b(!t)),
        ("$? ^^ $", |t, _v| b(!t)),
        ("$ ^^ $", |_t, _v| V::False),
        ("!! $", |t, _v| b(!t)),
        ("?? $", |t, _v| b(t)),
        ("!! !! $", |t, _v| b(t)),
        ("?? ?? $", |t, _v| b(t)),
        ("{ $ ?> 1 |> 2 } <~ $", |t, _v| if t { V::Int(1) } else { V::Int(2) }),
        ("($ && $?) ?> 1 |> 2", |t, _v| if t { V::Int(1) } else { V::Int(2) }),
    ]
}

fn matrix_values() -> Vec<V> {
    let mut v = vec![];
    for t in all_types() {
        v.extend(reps(t, true));
    }
    v
}

fn matrix_case<D: Store + Mk>(val: &V, src: &str, want: &V, acc: &mut Acc) {
    let mut m: Mon<D> = Mon::fresh();
    prep_expr0(&mut m);
    let run = real_in::<D>(m, src, val, &RunCfg { max_steps: 2_000, host: Host::declining() });
    acc.evals += 1;
    let ty = tname(val.type_of());
    acc.seen("tested_types", ty.clone());
    let got = match &run.outcome {
        RealOutcome::Value(Ok(v)) => v.clone(),
        RealOutcome::Value(Err(e)) => {
            acc.violation(format!("matrix|unreadable|{}|{}", src, ty), format!("[{}] {:?} with $ = {}: result unreadable: {}", D::NAME, src, val.show(), e), Json::obj());
            return;
        }
        RealOutcome::CompileFail(f) | RealOutcome::RunFail(f) => {
            let k = if matches!(f, Fail::Panic(..)) { "panic" } else { "err" };
            acc.violation(
                format!("matrix|{}|{}|{}", k, src, ty),
                format!("[{}] {:?} with $ = {} ({}) does not evaluate: {}", D::NAME, src, val.show(), ty, f.show()),
                Json::obj().with("source", Json::s(src)).with("input", val.json()),
            );
            return;
        }
        RealOutcome::StepLimit => {
            acc.count("step_limit");
            return;
        }
        RealOutcome::SetupFail(s) => {
            acc.count("setup_failed");
            acc.seen("setup_failures", s.chars().take(60).collect::<String>());
            return;
        }
    };
    acc.count("matrix_cells_compared");
    // expression values that come in through `$` have no `{` in the source to be named after
    let want = &crate::prog::map_expr(want, &|_| None);
    if got.show() != want.show() || (!want.has_unknown() && &got != want) {
        acc.violation(
            format!("matrix|wrong|{}|{}|{}", src, ty, D::NAME),
            format!(
                "[{}] {:?} with $ = {} (a {} value, which is {}) evaluates to {} but must be {}",
                D::NAME,
                src,
                val.show(),
                ty,
                if truthy(val) { "true: neither unit nor $!" } else { "false" },
                got.show(),
                want.show()
            ),
            Json::obj().with("source", Json::s(src)).with("input", val.json()),
        );
    }
}

/// instruction level: And / Or / Xor / Not / Tis on operand pairs
fn instr_case<D: Store + Mk>(l: &V, r: &V, acc: &mut Acc) {
    let (tl, tr) = (truthy(l), truthy(r));
    let _ = tr;
    // And / Or are test-and-jump instructions (they carry a jump operand); they are exercised through programs
    let cases: [(I, Vec<&V>, bool); 3] = [(I::Xor, vec![l, r], tl != tr), (I::Not, vec![l], !tl), (I::Tis, vec![l], tl)];
    for (ins, ops, want) in cases {
        let mut m: Mon<D> = Mon::fresh();
        prep_expr0(&mut m);
        m.host = Host::declining();
        let ops_v: Vec<V> = ops.iter().map(|v| (*v).clone()).collect();
        let st = match exec_one(&mut m, ins, None, &ops_v) {
            Ok(s) => s,
            Err(_) => {
                acc.count("setup_failed");
                continue;
            }
        };
        acc.evals += 1;
        acc.count("instruction_cells_compared");
        let sig = || format!("instr|{:?}|{}", ins, ops_v.iter().map(|v| tname(v.type_of())).collect::<Vec<_>>().join(","));
        match (&st.outcome, &st.top) {
            (Ok(_), Some(Ok(v))) if *v == b(want) && st.depth_after + ops_v.len() == st.depth_before + 1 => {}
            (Ok(_), top) => acc.violation(
                sig(),
                format!(
                    "[{}] {:?} on ({}) leaves {} with {} operands (had {}); must leave {} with one result in place of the operands",
                    D::NAME,
                    ins,
                    ops_v.iter().map(|v| v.show()).collect::<Vec<_>>().join(", "),
                    match top {
                        Some(Ok(v)) => v.show(),
                        Some(Err(e)) => format!("<unreadable: {}>", e),
                        None => "<nothing>".into(),
                    },
                    st.depth_after,
                    st.depth_before,
                    b(want).show()
                ),
                Json::obj(),
            ),
            (Err(f), _) => acc.violation(sig(), format!("[{}] {:?} on ({}) fails: {}", D::NAME, ins, ops_v.iter().map(|v| v.show()).collect::<Vec<_>>().join(", "), f.show()), Json::obj()),
        }
    }
}

// ------------------------------------------------------------------ evaluation-order templates

fn id(n: &str) -> E {
    E::Ident(n.to_string())
}
fn cond(arms: Vec<(bool, E, E)>, els: Option<E>) -> E {
    E::Cond(arms, els.map(|e| e.b()))
}
fn g(e: E) -> E {
    E::Group(e.b())
}
fn bin(o: Bin, l: E, r: E) -> E {
    E::Bin(o, l.b(), r.b())
}

/// programs over identifiers a..e; every identifier occurrence is one observable evaluation
pub fn templates() -> Vec<E> {
    let (a, b_, c, d, e) = (id("a"), id("b"), id("c"), id("d"), id("e"));
    let v = vec![
        cond(vec![(false, a.clone(), b_.clone())], None),
        cond(vec![(true, a.clone(), b_.clone())], None),
        cond(vec![(false, a.clone(), b_.clone())], Some(c.clone())),
        cond(vec![(true, a.clone(), b_.clone())], Some(c.clone())),
        cond(vec![(false, a.clone(), b_.clone()), (false, c.clone(), d.clone())], Some(e.clone())),
        cond(vec![(true, a.clone(), b_.clone()), (true, c.clone(), d.clone())], Some(e.clone())),
        cond(vec![(false, a.clone(), b_.clone()), (true, c.clone(), d.clone())], Some(e.clone())),
        cond(vec![(true, a.clone(), b_.clone()), (false, c.clone(), d.clone())], Some(e.clone())),
        bin(Bin::And, a.clone(), b_.clone()),
        bin(Bin::Or, a.clone(), b_.clone()),
        bin(Bin::Xor, a.clone(), b_.clone()),
        bin(Bin::Or, g(bin(Bin::And, a.clone(), b_.clone())), c.clone()),
        bin(Bin::And, a.clone(), g(bin(Bin::Or, b_.clone(), c.clone()))),
        bin(Bin::And, g(bin(Bin::Or, a.clone(), b_.clone())), c.clone()),
        bin(Bin::Or, a.clone(), g(bin(Bin::And, b_.clone(), c.clone()))),
        bin(Bin::And, bin(Bin::And, a.clone(), b_.clone()), c.clone()),
        bin(Bin::Or, bin(Bin::Or, a.clone(), b_.clone()), c.clone()),
        bin(Bin::And, bin(Bin::Or, a.clone(), b_.clone()), c.clone()),
        bin(Bin::And, E::Un(Un::Not, a.clone().b()), b_.clone()),
        bin(Bin::Or, E::Un(Un::Tis, a.clone().b()), b_.clone()),
        bin(Bin::And, g(cond(vec![(false, a.clone(), b_.clone())], Some(c.clone()))), d.clone()),
        bin(Bin::Or, d.clone(), g(cond(vec![(true, a.clone(), b_.clone())], Some(c.clone())))),
        cond(vec![(false, a.clone(), g(bin(Bin::And, b_.clone(), c.clone())))], Some(g(bin(Bin::Or, d.clone(), e.clone())))),
        cond(vec![(false, g(bin(Bin::And, a.clone(), b_.clone())), c.clone())], Some(d.clone())),
        cond(vec![(true, g(bin(Bin::Or, a.clone(), b_.clone())), c.clone())], Some(d.clone())),
        cond(vec![(false, a.clone(), g(cond(vec![(false, b_.clone(), c.clone())], Some(d.clone()))))], Some(e.clone())),
        cond(vec![(false, a.clone(), b_.clone())], Some(g(cond(vec![(true, c.clone(), d.clone())], Some(e.clone()))))),
        E::List(vec![g(cond(vec![(false, a.clone(), b_.clone())], Some(c.clone()))), d.clone()]),
        E::Comma(vec![bin(Bin::And, a.clone(), b_.clone()), bin(Bin::Or, c.clone(), d.clone())], false),
        E::Seq(vec![cond(vec![(false, a.clone(), b_.clone())], Some(c.clone())), d.clone()], true),
        E::Seq(vec![bin(Bin::And, a.clone(), b_.clone()), cond(vec![(true, c.clone(), d.clone())], Some(e.clone()))], false),
        bin(Bin::Apply, E::Nested(cond(vec![(false, a.clone(), b_.clone())], Some(c.clone())).b()), d.clone()),
        bin(Bin::ApplyTo, d.clone(), E::Nested(bin(Bin::And, a.clone(), b_.clone()).b())),
        bin(Bin::Add, a.clone(), g(bin(Bin::And, b_.clone(), c.clone()))),
        bin(Bin::Xor, a.clone(), g(bin(Bin::And, b_.clone(), c.clone()))),
        bin(Bin::Eq, g(bin(Bin::Or, a.clone(), b_.clone())), g(bin(Bin::And, c.clone(), d.clone()))),
        E::Effect(a.clone().b(), bin(Bin::And, b_.clone(), c.clone()).b()),
        cond(vec![(false, a.clone(), E::Effect(b_.clone().b(), c.clone().b()))], Some(d.clone())),
    ];
    v.into_iter().filter(|e| well_formed(e)).collect()
}

const NAMES: [&str; 8] = ["a", "b", "c", "d", "e", "f", "x", "y"];

fn names(s: u64) -> String {
    for n in NAMES.iter().chain(["zed", "w", "k", "name"].iter()) {
        if sym_u(n) == s {
            return n.to_string();
        }
    }
    format!("#{:x}", s)
}

fn host_values() -> Vec<V> {
    vec![V::Unit, V::False, V::Int(0), V::True, V::str(""), list(vec![])]
}

fn minimise<'e>(e: &'e E, check: &dyn Fn(&E) -> Option<Checked>, class: &str) -> &'e E {
    let mut cur = e;
    loop {
        let mut next = None;
        for c in children(cur) {
            if has_reapply(c) {
                continue;
            }
            if let Some(k) = check(c) {
                if k.class == class {
                    next = Some(c);
                    break;
                }
            }
        }
        match next {
            Some(c) => cur = c,
            None => return cur,
        }
    }
}

pub fn check_logged(e: &E, input: &V, cfg: &HostCfg, max_steps: u64, acc: &mut Acc) {
    let src = e.print();
    if let Err(msg) = printer_selfcheck(e, &src) {
        acc.count("printer_selfcheck_failed");
        acc.seen("printer_selfcheck_samples", msg.chars().take(160).collect::<String>());
        return;
    }
    for which in 0..2 {
        let d = if which == 0 {
            disagreement::<Simple>(e, input, cfg, &Simple::fresh, max_steps, &names, acc)
        } else {
            disagreement::<Basic>(e, input, cfg, &Basic::fresh, max_steps, &names, acc)
        };
        if let Some(k) = d {
            let seen = acc.counters.get(&format!("raw::{}", k.class)).cloned().unwrap_or(0);
            acc.count(&format!("raw::{}", k.class));
            if seen >= 40 {
                continue;
            }
            let chk = |x: &E| -> Option<Checked> {
                let mut dummy = Acc::default();
                if which == 0 {
                    disagreement::<Simple>(x, input, cfg, &Simple::fresh, 5_000, &names, &mut dummy)
                } else {
                    disagreement::<Basic>(x, input, cfg, &Basic::fresh, 5_000, &names, &mut dummy)
                }
            };
            let min = if has_reapply(e) { e } else { minimise(e, &chk, &k.class) };
            acc.violation(
                format!("{}|{}", k.class, shape(min, 2)),
                format!("{} [minimal sub-program {:?}]", k.desc, min.print()),
                Json::obj().with("source", Json::s(src.clone())).with("input", input.json()).with("minimal", Json::s(min.print())),
            );
        }
    }
}

/// logic-dense random programs over host-only identifiers
fn rand_logic(r: &mut Rng, depth: usize) -> E {
    if depth == 0 || r.chance(1, 6) {
        return match r.below(10) {
            0 => E::Unit,
            1 => E::False,
            2 => E::True,
            3 => E::Int(r.range(0, 3) as i32),
            _ => id(NAMES[r.below(6) as usize]),
        };
    }
    let sub = |r: &mut Rng| rand_logic(r, depth - 1);
    let e = match r.below(14) {
        0 | 1 => bin(Bin::And, sub(r), sub(r)),
        2 | 3 => bin(Bin::Or, sub(r), sub(r)),
        4 => bin(Bin::Xor, sub(r), sub(r)),
        5 => E::Un(if r.chance(1, 2) { Un::Not } else { Un::Tis }, sub(r).b()),
        6 | 7 | 8 => {
            let n = 1 + r.below(3);
            let arms = (0..n).map(|_| (r.chance(1, 3), sub(r), sub(r))).collect();
            let els = if n > 1 || r.chance(2, 3) { Some(sub(r)) } else { None };
            cond(arms, els)
        }
        9 => g(sub(r)),
        10 => E::List(vec![sub(r), sub(r)]),
        11 => bin(*r.pick(&[Bin::Add, Bin::Eq, Bin::Pair, Bin::Lt]), sub(r), sub(r)),
        12 => {
            let f = E::Nested(sub(r).b());
            if r.chance(1, 2) {
                bin(Bin::Apply, f, sub(r))
            } else {
                bin(Bin::ApplyTo, sub(r), f)
            }
        }
        _ => E::Seq(vec![sub(r), sub(r)], r.chance(1, 2)),
    };
    if well_formed(&e) {
        e
    } else {
        id(NAMES[r.below(6) as usize])
    }
}

pub fn run(ctx: &Ctx) -> (Acc, String, bool) {
    let vals = matrix_values();
    let cons = constructs();
    let matrix_total = (vals.len() * cons.len()) as u64;
    let instr_total = (vals.len() * vals.len()) as u64;
    let tmpl = templates();
    let hv = host_values();
    // per template: every assignment of host values to the identifiers it uses
    let mut tmpl_cases: Vec<(usize, Vec<(String, usize)>)> = vec![];
    for (ti, t) in tmpl.iter().enumerate() {
        let mut ids = vec![];
        t.idents(&mut ids);
        ids.sort();
        ids.dedup();
        let k = ids.len();
        let base: usize = if k <= 3 { 6 } else if k == 4 { 4 } else { 3 };
        let n = base.pow(k as u32);
        for code in 0..n {
            let mut c = code;
            let mut asg = vec![];
            for name in &ids {
                asg.push((name.clone(), c % base));
                c /= base;
            }
            tmpl_cases.push((ti, asg));
        }
    }
    let tmpl_total = tmpl_cases.len() as u64;
    let random_total: u64 = ctx.pick(300_000, 20_000_000);
    let seed = ctx.seed;
    let gen_cfg = GenCfg { idents: NAMES[..6].iter().map(|s| s.to_string()).collect(), ..GenCfg::default() };
    let acc = run_cases(ctx, matrix_total + instr_total + tmpl_total + random_total, |i, acc| {
        if i < matrix_total {
            let v = &vals[(i / cons.len() as u64) as usize];
            let (src, f) = cons[(i % cons.len() as u64) as usize];
            let want = f(truthy(v), v);
            matrix_case::<Simple>(v, src, &want, acc);
            matrix_case::<Basic>(v, src, &want, acc);
            acc.seen("testing_constructs", src);
            acc.nontrivial += 1;
        } else if i < matrix_total + instr_total {
            let j = i - matrix_total;
            let (l, r) = (&vals[(j / vals.len() as u64) as usize], &vals[(j % vals.len() as u64) as usize]);
            instr_case::<Simple>(l, r, acc);
            instr_case::<Basic>(l, r, acc);
            acc.nontrivial += 1;
        } else if i < matrix_total + instr_total + tmpl_total {
            let (ti, asg) = &tmpl_cases[(i - matrix_total - instr_total) as usize];
            let mut resolves = HashMap::new();
            for (n, k) in asg {
                // unit is also what a declining host yields: leave those symbols unanswered half the time
                if !(matches!(hv[*k], V::Unit) && n.as_bytes()[0] % 2 == 0) {
                    resolves.insert(sym_u(n), hv[*k].clone());
                }
            }
            let cfg = HostCfg { resolves, apply_accept: false, native: false };
            check_logged(&tmpl[*ti], &V::Unit, &cfg, 5_000, acc);
            acc.count("template_runs");
            acc.nontrivial += 1;
        } else {
            let mut r = Rng::for_case(seed, i);
            let e = if r.chance(2, 3) {
                let depth = 2 + r.below(4) as usize;
                rand_logic(&mut r, depth)
            } else {
                let depth = 2 + r.below(3);
                rand_program(&mut r, depth, &gen_cfg)
            };
            let mut resolves = HashMap::new();
            for n in NAMES[..6].iter() {
                if r.chance(5, 6) {
                    resolves.insert(sym_u(n), r.pick(&hv).clone());
                }
            }
            // sometimes `$` itself answers some identifiers, which must then never reach the host
            let input = match r.below(5) {
                0 => list(vec![kv("a", V::False), kv("c", V::Int(1))]),
                1 => list(vec![kv("b", V::Unit), kv("d", V::True), V::Int(9)]),
                _ => V::Unit,
            };
            let cfg = HostCfg { resolves, apply_accept: false, native: false };
            acc.distinct.insert(fnv_str(&format!("{}|{}", e.print(), input.show())));
            check_logged(&e, &input, &cfg, 20_000, acc);
            if i % 20_011 == 0 {
                acc.sample(Json::s(format!("random {:?} with $ = {}", e.print(), input.show())));
            }
        }
    });
    let rule = format!(
        "(a) truth matrix: {} values (every value type, empty and non-empty representatives) as `$` x {} testing programs over ?> !> && || ^^ !! ?? (whole pipeline, both stores) = {} cells, plus Xor/Not/Tis as single instructions on all {} ordered value pairs; oracle: false iff unit or $!. (b) evaluation monitor: {} templates over identifiers only the host can answer x every assignment of 3-6 host values per identifier = {} runs, and {} random logic-dense programs; the recorded resolve sequence and final value must equal the reference evaluator's.",
        vals.len(),
        cons.len(),
        matrix_total,
        instr_total,
        tmpl.len(),
        tmpl_total,
        random_total
    );
    (acc, rule, false)
}

pub const ASSUMPTIONS: &[&str] = &[
    "every identifier evaluation that the input value cannot answer is observable as exactly one resolve call (C17 checks that separately); the evaluation order of operands is left to right as in the reference evaluator",
    "programs whose meaning the reference evaluator does not pin (it answers 'unknown' somewhere) are skipped, values and log",
];
