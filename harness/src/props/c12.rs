//! C12 Ordering comparisons agree with the natural order.

use crate::mon::Mon;
use crate::pipe::{exec_one, Fail};
use crate::pool::{reps, tname};
use crate::props::c09::{float_lattice, int_lattice};
use crate::run::{run_cases, Acc, Ctx};
use crate::store::{Basic, Simple, Store};
use crate::util::{fnv_str, panic_site, Json, Rng};
use crate::value::{all_types, Mk, V};
use garnish_lang_traits::Instruction as I;
use std::cmp::Ordering;

const OPS: [I; 4] = [I::LessThan, I::LessThanOrEqual, I::GreaterThan, I::GreaterThanOrEqual];

#[derive(Debug, Clone, PartialEq)]
enum Exp {
    Ord(Ordering),
    /// a NaN operand: unit for all four
    Unit,
    /// no order defined: false for all four
    Unordered,
    /// combination the property does not settle (slices): only "no failure" is checked
    NotJudged,
}

fn natural(a: &V, b: &V) -> Exp {
    let num = |v: &V| -> Option<f64> {
        match v {
            V::Int(i) => Some(*i as f64),
            V::Float(f) => Some(*f),
            _ => None,
        }
    };
    match (a, b) {
        (V::Int(x), V::Int(y)) => Exp::Ord(x.cmp(y)),
        (V::Int(_) | V::Float(_), V::Int(_) | V::Float(_)) => {
            let (x, y) = (num(a).unwrap(), num(b).unwrap());
            match x.partial_cmp(&y) {
                Some(o) => Exp::Ord(o),
                None => Exp::Unit,
            }
        }
        (V::Char(x), V::Char(y)) => Exp::Ord(x.cmp(y)),
        (V::Byte(x), V::Byte(y)) => Exp::Ord(x.cmp(y)),
        (V::CharList(x), V::CharList(y)) => Exp::Ord(x.chars().cmp(y.chars())),
        (V::ByteList(x), V::ByteList(y)) => Exp::Ord(x.cmp(y)),
        (V::Slice(..), V::Slice(..)) => Exp::NotJudged,
        _ => Exp::Unordered,
    }
}

fn want(op: I, e: &Exp) -> Option<V> {
    Some(match e {
        Exp::NotJudged => return None,
        Exp::Unit => V::Unit,
        Exp::Unordered => V::False,
        Exp::Ord(o) => V::boolean(match op {
            I::LessThan => o.is_lt(),
            I::LessThanOrEqual => o.is_le(),
            I::GreaterThan => o.is_gt(),
            I::GreaterThanOrEqual => o.is_ge(),
            _ => unreachable!(),
        }),
    })
}

fn flavor(v: &V) -> String {
    match v {
        V::Int(_) => "int".into(),
        V::Float(f) if f.is_nan() => "nan".into(),
        V::Float(_) => "float".into(),
        V::CharList(s) if !s.is_ascii() => "CharList(multibyte)".into(),
        o => tname(o.type_of()),
    }
}

fn run_op<D: Store + Mk>(op: I, a: &V, b: &V) -> Result<Result<V, String>, Fail> {
    let mut m: Mon<D> = Mon::fresh();
    crate::props::prep_expr0(&mut m);
    let one = exec_one(&mut m, op, None, &[a.clone(), b.clone()]).map_err(|e| Fail::Err(crate::pipe::Stage::Build, e))?;
    one.outcome?;
    if one.depth_after != 1 {
        return Ok(Err(format!("left {} operands", one.depth_after)));
    }
    Ok(match one.top {
        Some(Ok(v)) => Ok(v),
        Some(Err(e)) => Err(e),
        None => Err("no result".into()),
    })
}

fn check_pair<D: Store + Mk>(a: &V, b: &V, acc: &mut Acc) {
    let exp = natural(a, b);
    let fl = format!("{},{}", flavor(a), flavor(b));
    acc.seen("type_pairs", fl.clone());
    let payload = |op: I| {
        Json::obj().with("store", Json::s(D::NAME)).with("op", Json::s(format!("{:?}", op))).with("a", a.json()).with("b", b.json())
    };
    let mut got: Vec<Option<V>> = vec![];
    for op in OPS.iter().chain([I::Equal].iter()) {
        acc.evals += 1;
        match run_op::<D>(*op, a, b) {
            Err(Fail::Panic(_, msg, loc)) => {
                acc.violation(
                    format!("panic|{}|{:?}({})", panic_site(&loc), op, fl),
                    format!("[{}] {} {:?} {} panicked: {} at {}", D::NAME, a.show(), op, b.show(), msg, loc),
                    payload(*op),
                );
                got.push(None);
            }
            Err(Fail::Err(_, e)) => {
                // Equal failing is C11's business; here only the four ordering operators are judged
                if *op != I::Equal {
                    acc.violation(
                        format!("err|{:?}|{}", op, fl),
                        format!("[{}] {} {:?} {} failed instead of answering: {}", D::NAME, a.show(), op, b.show(), e),
                        payload(*op),
                    );
                }
                got.push(None);
            }
            Ok(Err(e)) => {
                acc.violation(format!("unreadable|{:?}|{}", op, fl), format!("[{}] {} {:?} {}: {}", D::NAME, a.show(), op, b.show(), e), payload(*op));
                got.push(None);
            }
            Ok(Ok(v)) => {
                if *op != I::Equal {
                    if let Some(w) = want(*op, &exp) {
                        if v != w {
                            acc.violation(
                                format!("wrong-value|{:?}|{}:want {} got {}", op, fl, w.show(), v.show()),
                                format!("[{}] {} {:?} {} = {} but the natural order says {} ({:?})", D::NAME, a.show(), op, b.show(), v.show(), w.show(), exp),
                                payload(*op).with("want", w.json()).with("got", v.json()),
                            );
                        }
                    }
                }
                got.push(Some(v));
            }
        }
    }
    // relational laws on what was observed (independent of the reference)
    if let (Some(lt), Some(le), Some(gt), Some(ge), eq) = (&got[0], &got[1], &got[2], &got[3], &got[4]) {
        if matches!(exp, Exp::Ord(_)) {
            acc.count("law_checks");
            let t = |v: &V| *v == V::True;
            let eqv = eq.as_ref().map(|v| t(v));
            if let Some(e) = eqv {
                let n = [t(lt), e, t(gt)].iter().filter(|x| **x).count();
                if n != 1 {
                    acc.violation(
                        format!("law|trichotomy|{}", fl),
                        format!("[{}] for {} , {}: (<, ==, >) = ({}, {}, {}) — exactly one must hold", D::NAME, a.show(), b.show(), t(lt), e, t(gt)),
                        payload(I::LessThan),
                    );
                }
            }
            if t(le) == t(gt) {
                acc.violation(format!("law|le-is-not-gt|{}", fl), format!("[{}] {} <= {} is {} but > is {}", D::NAME, a.show(), b.show(), t(le), t(gt)), payload(I::LessThanOrEqual));
            }
            if t(ge) == t(lt) {
                acc.violation(format!("law|ge-is-not-lt|{}", fl), format!("[{}] {} >= {} is {} but < is {}", D::NAME, a.show(), b.show(), t(ge), t(lt)), payload(I::GreaterThanOrEqual));
            }
            // a < b iff b > a
            if let Ok(Ok(gt_rev)) = run_op::<D>(I::GreaterThan, b, a) {
                acc.evals += 1;
                if t(&gt_rev) != t(lt) {
                    acc.violation(
                        format!("law|lt-iff-rev-gt|{}", fl),
                        format!("[{}] {} < {} is {} but {} > {} is {}", D::NAME, a.show(), b.show(), t(lt), b.show(), a.show(), t(&gt_rev)),
                        payload(I::LessThan),
                    );
                }
            }
        }
    }
}

fn strings(alpha: &[char], max: usize) -> Vec<String> {
    let mut out = vec![String::new()];
    let mut cur = vec![String::new()];
    for _ in 0..max {
        let mut next = vec![];
        for s in &cur {
            for c in alpha {
                let mut t = s.clone();
                t.push(*c);
                next.push(t);
            }
        }
        out.extend(next.iter().cloned());
        cur = next;
    }
    out
}

pub fn run(ctx: &Ctx) -> (Acc, String, bool) {
    let rich = !ctx.quick();
    let mut nums: Vec<V> = int_lattice().into_iter().step_by(ctx.pick(6, 2)).map(V::Int).collect();
    for f in float_lattice() {
        nums.push(V::Float(f));
    }
    for i in [i32::MAX, i32::MAX - 1, i32::MIN, 16777216, 16777217, 0, -1, 1] {
        nums.push(V::Int(i));
    }
    let strs: Vec<V> = strings(&['a', 'b', 'é', '😀'], ctx.pick(2, 3)).into_iter().map(V::CharList).collect();
    let mut bl: Vec<V> = vec![];
    for s in strings(&['\u{0}', '\u{1}', '\u{ff}'], 3) {
        bl.push(V::ByteList(s.chars().map(|c| c as u32 as u8).collect()));
    }
    let chars: Vec<V> = ['\0', 'a', 'b', 'z', 'é', '😀', char::MAX].iter().map(|c| V::Char(*c)).collect();
    let bytes: Vec<V> = [0u8, 1, 127, 128, 255].iter().map(|b| V::Byte(*b)).collect();
    let mut cross: Vec<V> = vec![];
    for t in all_types() {
        cross.extend(reps(t, rich));
    }
    let groups: Vec<&Vec<V>> = vec![&nums, &strs, &bl, &chars, &bytes, &cross];
    let mut offsets = vec![0u64];
    for g in &groups {
        offsets.push(offsets.last().unwrap() + (g.len() * g.len()) as u64);
    }
    let exhaustive_total = *offsets.last().unwrap();
    let random_total: u64 = ctx.pick(100_000, 20_000_000);
    let seed = ctx.seed;
    let acc = run_cases(ctx, exhaustive_total + random_total, |i, acc| {
        let (a, b) = if i < exhaustive_total {
            let gi = offsets.iter().rposition(|o| *o <= i).unwrap();
            let g = groups[gi];
            let j = (i - offsets[gi]) as usize;
            acc.nontrivial += 1;
            (g[j / g.len()].clone(), g[j % g.len()].clone())
        } else {
            let mut r = Rng::for_case(seed, i);
            let alpha = ['a', 'b', 'c', 'é', 'ß', '😀', '\n'];
            let mk = |r: &mut Rng| -> V {
                match r.below(3) {
                    0 => V::CharList((0..r.below(9)).map(|_| *r.pick(&alpha)).collect()),
                    1 => V::ByteList((0..r.below(9)).map(|_| *r.pick(&[0u8, 1, 2, 254, 255])).collect()),
                    _ => {
                        if r.chance(1, 2) {
                            V::Int(r.next() as i32)
                        } else {
                            V::Float((r.next() as i32) as f64 + *r.pick(&[0.0, 0.5, -0.5]))
                        }
                    }
                }
            };
            let a = mk(&mut r);
            // bias towards same-type, shared-prefix partners
            let b = if r.chance(2, 3) {
                match &a {
                    V::CharList(s) => {
                        let mut t: String = s.chars().take(r.below(s.chars().count() + 1)).collect();
                        for _ in 0..r.below(3) {
                            t.push(*r.pick(&alpha));
                        }
                        V::CharList(t)
                    }
                    V::ByteList(s) => {
                        let mut t: Vec<u8> = s[..r.below(s.len() + 1)].to_vec();
                        for _ in 0..r.below(3) {
                            t.push(*r.pick(&[0u8, 1, 2, 254, 255]));
                        }
                        V::ByteList(t)
                    }
                    V::Int(x) => r.pick(&[V::Int(*x), V::Int(x.wrapping_add(1)), V::Float(*x as f64), V::Float(*x as f64 + 0.5), V::Float(*x as f64 - 0.5)]).clone(),
                    V::Float(x) => r.pick(&[V::Float(*x), V::Int(*x as i32), V::Int((*x as i32).wrapping_add(1))]).clone(),
                    o => o.clone(),
                }
            } else {
                mk(&mut r)
            };
            acc.distinct.insert(fnv_str(&format!("{}|{}", a.show(), b.show())));
            (a, b)
        };
        check_pair::<Simple>(&a, &b, acc);
        check_pair::<Basic>(&a, &b, acc);
        if i % 9973 == 0 {
            acc.sample(Json::s(format!("{} vs {} -> natural order {:?}", a.show(), b.show(), natural(&a, &b))));
        }
    });
    let rule = format!(
        "exhaustive ordered pairs within: {} numbers (i32 lattice + float lattice incl. NaN/inf + int/float neighbours), {} char lists (all strings <= {} over a,b,é,😀), {} byte lists, {} chars, {} bytes, {} cross-type representatives of all 19 types; plus {} random same-type/shared-prefix pairs. Each pair: <,<=,>,>=,== executed on both stores; non-trivial = every pair (all judged against the natural order or the all-false rule).",
        nums.len(),
        strs.len(),
        ctx.pick(2, 3),
        bl.len(),
        chars.len(),
        bytes.len(),
        cross.len(),
        random_total
    );
    (acc, rule, false)
}

pub const ASSUMPTIONS: &[&str] = &["natural order: numeric (i32 exactly embedded in f64), code-point order for chars, lexicographic by element with the shorter prefix first", "slice/slice pairs are not judged against an order (the property does not settle them); only absence of failure is checked"];
