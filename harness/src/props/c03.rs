//! C03 — see props/sweep.rs (shared compile-pipeline sweep) for the corpus and the judge. This file adds the
//! *small stack* leg: the scaling families at large sizes are pushed through lex, parse and build in a child
//! process on a thread with a 2 MiB stack (the default of a spawned Rust thread). The sweep's own workers have
//! 64 MiB stacks, so recursion that grows with the input length would never show there; a stack overflow aborts
//! the process and cannot be caught, hence the child process and its exit status.

use crate::corpus;
use crate::props::sweep::{run as sweep, Which};
use crate::run::{Acc, Ctx};
use crate::store::{Basic, Simple};
use crate::util::Json;

/// entry point of the child process: `gmon pipe2m <family index> <n>`; prints one line
pub fn pipe_child(args: &[String]) {
    let (fam, n) = (args[0].parse::<usize>().unwrap_or(0), args[1].parse::<usize>().unwrap_or(1));
    let h = std::thread::Builder::new()
        .stack_size(2 << 20)
        .spawn(move || {
            let src = corpus::family(fam, n);
            let t0 = std::time::Instant::now();
            let timing = std::env::var("GMON_PIPE_TIMING").is_ok();
            let r = crate::util::guarded(|| {
                let toks = match garnish_lang_compiler::lex::lex(&src) {
                    Ok(t) => t,
                    Err(_) => return "lex-err",
                };
                if timing {
                    eprintln!("lexed {:?}", t0.elapsed());
                }
                let parsed = match garnish_lang_compiler::parse::parse(&toks) {
                    Ok(p) => p,
                    Err(_) => return "parse-err",
                };
                if timing {
                    eprintln!("parsed {:?}", t0.elapsed());
                }
                let mut s = <Simple as crate::store::Store>::fresh();
                let a = garnish_lang_compiler::build::build(parsed.get_root(), parsed.get_nodes().clone(), &mut s).is_ok();
                if timing {
                    eprintln!("built simple {:?}", t0.elapsed());
                }
                // doubling growth: the default of +10 cells per reallocation makes a build of this size quadratic (minutes)
                let mut b: Basic = garnish_lang_simple_data::BasicGarnishData::verif_new_with_growth(1024, true, 2, garnish_lang_simple_data::NoOpCompanion::new()).expect("verif_new_with_growth");
                let c = garnish_lang_compiler::build::build(parsed.get_root(), parsed.get_nodes().clone(), &mut b).is_ok();
                if timing {
                    eprintln!("built basic {:?}", t0.elapsed());
                }
                if a && c { "built" } else { "build-err" }
            });
            match r {
                Ok(x) => format!("ok: {}", x),
                Err((m, l)) => format!("panic: {} | {}", crate::util::panic_site(&l), m.chars().take(100).collect::<String>()),
            }
        })
        .expect("spawn");
    match h.join() {
        Ok(line) => println!("PIPE {}", line),
        Err(_) => println!("PIPE panic: harness | thread panicked"),
    }
}

pub fn run(ctx: &Ctx) -> (Acc, String, bool) {
    let (mut acc, rule, ex) = sweep(ctx, Which::C03);
    let sizes: Vec<usize> = if ctx.quick() { vec![20_000, 100_000] } else { vec![20_000, 100_000, 400_000, 1_500_000] };
    let limit = std::time::Duration::from_secs(ctx.pick(20, 300));
    let exe = std::env::current_exe().expect("current_exe");
    let mut cases: Vec<(usize, usize)> = vec![];
    for f in 0..corpus::FAMILIES.len() {
        for n in &sizes {
            // families with one build root per repetition cost quadratic time in build; long-number is capped by its own rule
            let n = if matches!(corpus::FAMILIES[f], "else-chain" | "nested-expressions" | "suffix-chain") { (*n).min(4096) } else { *n };
            if !cases.contains(&(f, n)) {
                cases.push((f, n));
            }
        }
    }
    let results: Vec<(usize, String)> = {
        let next = std::sync::atomic::AtomicUsize::new(0);
        let out = std::sync::Mutex::new(vec![]);
        std::thread::scope(|s| {
            for _ in 0..ctx.threads.max(1) {
                s.spawn(|| loop {
                    let i = next.fetch_add(1, std::sync::atomic::Ordering::SeqCst);
                    if i >= cases.len() {
                        break;
                    }
                    let (f, n) = cases[i];
                    let r = std::process::Command::new(&exe)
                        .args(["pipe2m", &f.to_string(), &n.to_string()])
                        .stdout(std::process::Stdio::piped())
                        .stderr(std::process::Stdio::piped())
                        .spawn()
                        .and_then(|mut ch| {
                            let t0 = std::time::Instant::now();
                            loop {
                                if ch.try_wait()?.is_some() {
                                    return ch.wait_with_output().map(Some);
                                }
                                if t0.elapsed() > limit {
                                    let _ = ch.kill();
                                    let _ = ch.wait();
                                    return Ok(None);
                                }
                                std::thread::sleep(std::time::Duration::from_millis(5));
                            }
                        });
                    let line = match r {
                        Err(e) => format!("inconclusive: could not start child: {}", e),
                        Ok(None) => "slow: stopped by the per-case wall-clock limit".to_string(),
                        Ok(Some(o)) => {
                            let so = String::from_utf8_lossy(&o.stdout);
                            let se = String::from_utf8_lossy(&o.stderr);
                            match so.lines().find(|l| l.starts_with("PIPE ")) {
                                Some(l) => l[5..].to_string(),
                                None => {
                                    use std::os::unix::process::ExitStatusExt;
                                    if se.contains("overflowed its stack") {
                                        "abort: stack overflow".to_string()
                                    } else if se.contains("memory allocation") {
                                        "abort: allocation failure".to_string()
                                    } else {
                                        format!("abort: signal {:?} code {:?}", o.status.signal(), o.status.code())
                                    }
                                }
                            }
                        }
                    };
                    out.lock().unwrap().push((i, line));
                });
            }
        });
        out.into_inner().unwrap()
    };
    for (i, line) in results {
        let (f, n) = cases[i];
        acc.evals += 1;
        acc.count("small_stack_cases");
        acc.count(&format!("small_stack_{}", line.split(':').next().unwrap_or("").replace('-', "_")));
        acc.max("small_stack_max_repetitions", n as u64);
        if line.starts_with("panic") || line.starts_with("abort") {
            acc.violation(
                format!("small-stack|{}|{}", line.split('|').next().unwrap_or("").trim(), corpus::FAMILIES[f]),
                format!("lex / parse / build of family {} x {} on a 2 MiB stack: {}", corpus::FAMILIES[f], n, line),
                Json::obj().with("family", Json::s(corpus::FAMILIES[f])).with("repetitions", Json::i(n as i64)),
            );
        }
    }
    let rule = format!(
        "{} Small stack: the {} scaling families at {:?} repetitions (quadratic ones capped at 4096) through lex, parse and build into both stores in a child process on a 2 MiB thread stack; a panic or an abort (stack overflow) is a violation, a child stopped by its wall-clock limit is counted as slow and not judged.",
        rule,
        corpus::FAMILIES.len(),
        sizes
    );
    (acc, rule, ex)
}

pub const ASSUMPTIONS: &[&str] = &[
    "polynomial time is decided on logical steps (verif_hooks tick counters) against the fixed bound 64*(n+4)^3 per stage, instructions <= 16*(n+4), data <= 64*(n+4)+4*literal characters, for an n-token input",
    "stack overflow or allocation failure would abort the worker; the driver re-runs single-threaded to name the in-flight case; the scaling families run once more on a 2 MiB stack in child processes",
];
