//! C03 — see props/sweep.rs (shared compile-pipeline sweep) for the corpus and the judge.

use crate::props::sweep::{run as sweep, Which};
use crate::run::{Acc, Ctx};

pub fn run(ctx: &Ctx) -> (Acc, String, bool) {
    sweep(ctx, Which::C03)
}

pub const ASSUMPTIONS: &[&str] = &[
    "polynomial time is decided on logical steps (verif_hooks tick counters) against the fixed bound 64*(n+4)^3 per stage, instructions <= 16*(n+4), data <= 64*(n+4)+4*literal characters, for an n-token input",
    "stack overflow or allocation failure would abort the worker; the driver re-runs single-threaded to name the in-flight case",
];
