//! C11 Equality is structural and an equivalence relation.

use crate::mon::Mon;
use crate::pipe::{step, Fail};
use crate::pool::{sym_u, tname};
use crate::run::{run_cases, Acc, Ctx};
use crate::store::{Basic, Simple, Store};
use crate::util::{fnv_str, panic_site, Json, Rng};
use crate::value::{construct_shared, construct, readback, Mk, SymPart, V};
use garnish_lang_simple_data::DataError;
use garnish_lang_traits::{GarnishData, Instruction as I};
use std::collections::HashMap;

// ------------------------------------------------------------------ reference

pub fn ref_eq(a: &V, b: &V) -> bool {
    use V::*;
    match (a, b) {
        (Unit, Unit) | (True, True) | (False, False) => true,
        (Int(x), Int(y)) => x == y,
        (Float(x), Float(y)) => x == y,
        (Int(x), Float(y)) | (Float(y), Int(x)) => (*x as f64) == *y,
        (Char(x), Char(y)) => x == y,
        (Byte(x), Byte(y)) => x == y,
        (Sym(x), Sym(y)) => x == y,
        (Type(x), Type(y)) => x == y,
        (Expr(x), Expr(y)) => x == y,
        (External(x), External(y)) => x == y,
        (Char(c), CharList(s)) | (CharList(s), Char(c)) => {
            let mut it = s.chars();
            it.next() == Some(*c) && it.next().is_none()
        }
        (Byte(c), ByteList(s)) | (ByteList(s), Byte(c)) => s.len() == 1 && s[0] == *c,
        (CharList(x), CharList(y)) => x == y,
        (ByteList(x), ByteList(y)) => x == y,
        (SymList(x), SymList(y)) => x == y,
        (Pair(a1, a2), Pair(b1, b2)) => ref_eq(a1, b1) && ref_eq(a2, b2),
        (Range(a1, a2), Range(b1, b2)) => ref_eq(a1, b1) && ref_eq(a2, b2),
        (List(_) | Concat(..), List(_) | Concat(..)) => {
            let (x, y) = (a.flat_items(), b.flat_items());
            x.len() == y.len() && x.iter().zip(y.iter()).all(|(p, q)| ref_eq(p, q))
        }
        _ => false,
    }
}

// ------------------------------------------------------------------ generators

fn leaves() -> Vec<V> {
    let (a, b) = (sym_u("alpha"), sym_u("beta"));
    vec![
        V::Unit,
        V::True,
        V::False,
        V::Int(0),
        V::Int(1),
        V::Int(-7),
        V::Float(1.0),
        V::Float(0.5),
        // different numbers that agree in their first seven digits / differ in the last bit
        V::Float(1.00000001),
        V::Float(0.5000000000000001),
        V::Float(16777217.0),
        V::Int(16777216),
        V::Char('a'),
        V::Char('é'),
        V::Byte(97),
        V::Sym(a),
        V::Sym(b),
        V::str(""),
        V::str("a"),
        V::str("é"),
        V::str("ab"),
        V::str("éa"),
        V::ByteList(vec![]),
        V::ByteList(vec![97]),
        V::ByteList(vec![97, 98]),
        V::SymList(vec![SymPart::Sym(a), SymPart::Sym(b)]),
        V::SymList(vec![SymPart::Sym(b), SymPart::Sym(a)]),
        V::Type(garnish_lang_traits::GarnishDataType::Number),
        V::Expr(0),
        V::External(1),
        V::External(2),
    ]
}

fn level1(base: &[V]) -> Vec<V> {
    let mut out = vec![V::List(vec![])];
    for x in base {
        out.push(V::List(vec![x.clone()]));
        for y in base {
            out.push(V::pair(x.clone(), y.clone()));
            out.push(V::List(vec![x.clone(), y.clone()]));
            out.push(V::Concat(Box::new(x.clone()), Box::new(y.clone())));
        }
    }
    out
}

fn rand_leaf(r: &mut Rng) -> V {
    let ls = leaves();
    match r.below(8) {
        0 => V::Int(r.range(-3, 3) as i32),
        1 => V::CharList((0..r.below(4)).map(|_| *r.pick(&['a', 'b', 'é', '😀'])).collect()),
        2 => V::ByteList((0..r.below(4)).map(|_| *r.pick(&[0u8, 97, 255])).collect()),
        _ => r.pick(&ls).clone(),
    }
}

pub fn rand_tree(r: &mut Rng, depth: usize) -> V {
    if depth == 0 || r.chance(1, 4) {
        return rand_leaf(r);
    }
    match r.below(4) {
        0 => V::pair(rand_tree(r, depth - 1), rand_tree(r, depth - 1)),
        1 => V::Concat(Box::new(rand_tree(r, depth - 1)), Box::new(rand_tree(r, depth - 1))),
        _ => {
            let n = r.below(4);
            V::List((0..n).map(|_| rand_tree(r, depth - 1)).collect())
        }
    }
}

/// a value that must compare equal to `v` but is shaped differently
fn reshape(r: &mut Rng, v: &V) -> V {
    match v {
        V::Int(i) if r.chance(1, 2) => V::Float(*i as f64),
        V::Float(f) if f.fract() == 0.0 && f.abs() < 1e9 && r.chance(1, 2) => V::Int(*f as i32),
        V::Char(c) if r.chance(1, 2) => V::CharList(c.to_string()),
        V::Byte(b) if r.chance(1, 2) => V::ByteList(vec![*b]),
        V::CharList(s) if s.chars().count() == 1 && r.chance(1, 2) => V::Char(s.chars().next().unwrap()),
        V::ByteList(s) if s.len() == 1 && r.chance(1, 2) => V::Byte(s[0]),
        V::Pair(a, b) => V::pair(reshape(r, a), reshape(r, b)),
        V::List(_) | V::Concat(..) => {
            let items: Vec<V> = v.flat_items().into_iter().map(|x| reshape(r, x)).collect();
            regroup(r, items)
        }
        o => o.clone(),
    }
}

/// build a list / concatenation whose flat item sequence is `items`
fn regroup(r: &mut Rng, items: Vec<V>) -> V {
    // a flat item that is itself a list would be spliced when placed directly under a
    // concatenation, so only plain lists are safe when such items occur
    let splice_risk = items.iter().any(|x| matches!(x, V::List(_) | V::Concat(..)));
    if items.len() < 2 || r.chance(1, 3) || splice_risk {
        return V::List(items);
    }
    let cut = 1 + r.below(items.len() - 1);
    let (l, rr) = items.split_at(cut);
    let part = |r: &mut Rng, xs: &[V]| -> V {
        if xs.len() == 1 && r.chance(1, 2) {
            xs[0].clone()
        } else if xs.len() >= 2 && r.chance(1, 2) {
            regroup(r, xs.to_vec())
        } else {
            V::List(xs.to_vec())
        }
    };
    let (a, b) = (part(r, l), part(r, rr));
    V::Concat(Box::new(a), Box::new(b))
}

/// change exactly one thing somewhere in `v`
fn mutate(r: &mut Rng, v: &V) -> V {
    match v {
        V::Pair(a, b) => {
            if r.chance(1, 2) {
                V::pair(mutate(r, a), (**b).clone())
            } else {
                V::pair((**a).clone(), mutate(r, b))
            }
        }
        V::List(xs) => {
            let mut ys = xs.clone();
            match r.below(3) {
                0 if !ys.is_empty() => {
                    let i = r.below(ys.len());
                    ys[i] = mutate(r, &ys[i]);
                }
                1 if !ys.is_empty() => {
                    ys.remove(r.below(xs.len()));
                }
                _ => ys.push(rand_leaf(r)),
            }
            V::List(ys)
        }
        V::Concat(a, b) => {
            if r.chance(1, 2) {
                V::Concat(Box::new(mutate(r, a)), b.clone())
            } else {
                V::Concat(a.clone(), Box::new(mutate(r, b)))
            }
        }
        V::CharList(s) => {
            let mut t = s.clone();
            if t.is_empty() || r.chance(1, 2) {
                t.push('z');
            } else {
                t.pop();
            }
            V::CharList(t)
        }
        V::ByteList(s) => {
            let mut t = s.clone();
            if t.is_empty() || r.chance(1, 2) {
                t.push(7);
            } else {
                t.pop();
            }
            V::ByteList(t)
        }
        V::Int(i) => V::Int(i.wrapping_add(1)),
        V::Float(f) => V::Float(f + 1.0),
        V::Unit => V::False,
        V::True => V::False,
        V::False => V::True,
        V::Char(c) => V::Char(if *c == 'q' { 'r' } else { 'q' }),
        V::Byte(b) => V::Byte(b.wrapping_add(1)),
        V::Sym(s) => V::Sym(s.wrapping_add(1)),
        V::External(e) => V::External(e + 1),
        o => V::pair(o.clone(), V::Unit),
    }
}

// ------------------------------------------------------------------ execution


#[derive(Clone, Copy, PartialEq, Debug)]
pub enum Build {
    Fresh,
    RightFirst,
    Shared,
    Junk,
}

pub struct EqRun {
    pub result: Result<Result<V, String>, Fail>,
    pub depth_after: usize,
    pub sentinel_intact: bool,
}

pub fn run_eq<D: Store + Mk>(ins: I, a: &V, b: &V, how: Build) -> Result<EqRun, String> {
    let mut m: Mon<D> = Mon::fresh();
    crate::props::prep_expr0(&mut m);
    let es = |e: DataError| e.to_string();
    let sentinel = m.add_number(424242.into()).map_err(es)?;
    let (la, ra) = match how {
        Build::Fresh => {
            let l = construct(&mut m, a).map_err(es)?;
            let r = construct(&mut m, b).map_err(es)?;
            (l, r)
        }
        Build::RightFirst => {
            let r = construct(&mut m, b).map_err(es)?;
            let l = construct(&mut m, a).map_err(es)?;
            (l, r)
        }
        Build::Junk => {
            let l = construct(&mut m, a).map_err(es)?;
            for i in 0..23 {
                m.add_number((1000 + i).into()).map_err(es)?;
                m.add_pair((l, l)).map_err(es)?;
            }
            let r = construct(&mut m, b).map_err(es)?;
            (l, r)
        }
        Build::Shared => {
            let mut memo = HashMap::new();
            let l = construct_shared(&mut m, a, &mut memo).map_err(es)?;
            let r = construct_shared(&mut m, b, &mut memo).map_err(es)?;
            (l, r)
        }
    };
    m.push_register(sentinel).map_err(es)?;
    m.push_register(la).map_err(es)?;
    m.push_register(ra).map_err(es)?;
    let idx = m.push_instruction(ins, None).map_err(es)?;
    m.push_instruction(I::EndExpression, None).map_err(es)?;
    m.set_instruction_cursor(idx).map_err(es)?;
    let out = step(&mut m);
    let depth_after = m.depth();
    let sentinel_intact = m.regs.first() == Some(&sentinel) && m.get_register(0) == Some(sentinel);
    let result = match out {
        Err(f) => Err(f),
        Ok(_) => Ok(match m.regs.last() {
            Some(addr) => readback(&m.d, *addr),
            None => Err("no result".into()),
        }),
    };
    if !m.shadow_errors.is_empty() {
        return Ok(EqRun { result: Ok(Err(format!("store/shadow disagreement: {}", m.shadow_errors[0]))), depth_after, sentinel_intact });
    }
    Ok(EqRun { result, depth_after, sentinel_intact })
}

fn flavor(v: &V) -> String {
    match v {
        V::CharList(s) if !s.is_ascii() => "CharList(multibyte)".into(),
        o => tname(o.type_of()),
    }
}

/// returns the observed truth value of `a == b`
fn check_pair<D: Store + Mk>(a: &V, b: &V, how: Build, acc: &mut Acc) -> Option<bool> {
    let want = ref_eq(a, b);
    let fl = format!("{},{}", flavor(a), flavor(b));
    acc.seen("type_pairs", fl.clone());
    acc.count(if want { "expected_equal" } else { "expected_unequal" });
    let mut observed = None;
    for ins in [I::Equal, I::NotEqual] {
        acc.evals += 1;
        let payload = Json::obj()
            .with("store", Json::s(D::NAME))
            .with("op", Json::s(format!("{:?}", ins)))
            .with("a", a.json())
            .with("b", b.json())
            .with("construction", Json::s(format!("{:?}", how)));
        let run = match run_eq::<D>(ins, a, b, how) {
            Ok(r) => r,
            Err(e) => {
                acc.count("construct_failed");
                acc.seen("construct_failures", e.chars().take(60).collect::<String>());
                return None;
            }
        };
        match &run.result {
            Err(Fail::Panic(_, msg, loc)) => acc.violation(
                format!("panic|{}|{:?}({})", panic_site(loc), ins, fl),
                format!("[{}] {} {:?} {} panicked: {} at {}", D::NAME, a.show(), ins, b.show(), msg, loc),
                payload,
            ),
            Err(Fail::Err(_, e)) => acc.violation(
                format!("err|{:?}|{}", ins, fl),
                format!("[{}] {} {:?} {} failed: {}", D::NAME, a.show(), ins, b.show(), e),
                payload,
            ),
            Ok(Err(e)) => acc.violation(format!("unreadable|{:?}|{}", ins, fl), format!("[{}] {} {:?} {}: {}", D::NAME, a.show(), ins, b.show(), e), payload),
            Ok(Ok(v)) => {
                let w = if ins == I::Equal { want } else { !want };
                if *v != V::boolean(w) {
                    acc.violation(
                        format!("wrong-value|{:?}|{}:want {} got {}", ins, fl, w, v.show()),
                        format!("[{}] ({:?}) {} {:?} {} = {} but structural equality says {}", D::NAME, how, a.show(), ins, b.show(), v.show(), w),
                        payload.clone().with("want", Json::Bool(w)).with("got", v.json()),
                    );
                }
                if ins == I::Equal {
                    observed = Some(*v == V::True);
                }
                if run.depth_after != 2 || !run.sentinel_intact {
                    acc.violation(
                        format!("imbalance|{:?}|{}:depth {} sentinel {}", ins, fl, run.depth_after, run.sentinel_intact),
                        format!(
                            "[{}] {} {:?} {} left {} operands above/including the sentinel (expected sentinel + 1 result), sentinel intact: {}",
                            D::NAME,
                            a.show(),
                            ins,
                            b.show(),
                            run.depth_after,
                            run.sentinel_intact
                        ),
                        payload,
                    );
                }
            }
        }
    }
    observed
}

fn check_case<D: Store + Mk>(a: &V, b: &V, how: Build, acc: &mut Acc) {
    let ab = check_pair::<D>(a, b, how, acc);
    let ba = check_pair::<D>(b, a, how, acc);
    if let (Some(x), Some(y)) = (ab, ba) {
        acc.count("symmetry_checks");
        if x != y {
            acc.violation(
                format!("law|symmetric|{},{}", flavor(a), flavor(b)),
                format!("[{}] {} == {} is {} but the reverse is {}", D::NAME, a.show(), b.show(), x, y),
                Json::obj().with("store", Json::s(D::NAME)).with("a", a.json()).with("b", b.json()),
            );
        }
    }
}

pub fn run(ctx: &Ctx) -> (Acc, String, bool) {
    let lv = leaves();
    let reduced: Vec<V> = vec![V::Unit, V::Int(1), V::Float(1.0), V::Char('a'), V::str("a"), V::str("ab"), V::Sym(sym_u("alpha")), V::Int(2), V::List(vec![V::Int(1)])];
    let mut s1 = lv.clone();
    s1.extend(level1(&reduced));
    let n1 = s1.len() as u64;
    let exhaustive_total = n1 * n1;
    let random_total: u64 = ctx.pick(400_000, 12_000_000);
    let depth = ctx.pick(3, 5);
    let seed = ctx.seed;
    let acc = run_cases(ctx, exhaustive_total + random_total, |i, acc| {
        if i < exhaustive_total {
            let (a, b) = (&s1[(i / n1) as usize], &s1[(i % n1) as usize]);
            // ordered pairs: each unordered pair is visited twice, so only a->b direction here plus laws
            check_pair::<Simple>(a, b, Build::Fresh, acc);
            check_pair::<Basic>(a, b, Build::Fresh, acc);
            acc.nontrivial += 1;
            if i % 7919 == 0 {
                acc.sample(Json::s(format!("{} == {} -> reference {}", a.show(), b.show(), ref_eq(a, b))));
            }
        } else {
            let mut r = Rng::for_case(seed, i);
            if i % 8 == 7 {
                // one sub-value referenced twice or three times from the same parent (built once, shared):
                // the doubled value against its flat spelling, against the single value and against a tripled one
                let x = match r.below(3) {
                    0 => V::Concat(Box::new(rand_tree(&mut r, 1)), Box::new(rand_tree(&mut r, 1))),
                    1 => V::List((0..1 + r.below(3)).map(|_| rand_tree(&mut r, 1)).collect()),
                    _ => rand_tree(&mut r, depth.min(3)),
                };
                let b = |v: &V| Box::new(v.clone());
                let doubled = match r.below(4) {
                    0 | 1 => V::Concat(b(&x), b(&x)),
                    2 => V::Concat(Box::new(V::Concat(b(&x), b(&x))), b(&x)),
                    _ => V::List(vec![x.clone(), x.clone()]),
                };
                let other = match r.below(4) {
                    0 => reshape(&mut r, &doubled),
                    1 => x.clone(),
                    2 => V::Concat(Box::new(doubled.clone()), b(&x)),
                    _ => doubled.clone(),
                };
                acc.count("kind_shared_twice");
                check_case::<Simple>(&doubled, &other, Build::Shared, acc);
                check_case::<Basic>(&doubled, &other, Build::Shared, acc);
                acc.distinct.insert(fnv_str(&format!("{}|{}", doubled.show(), other.show())));
                return;
            }
            let t = rand_tree(&mut r, depth);
            let kind = r.below(5);
            let p = match kind {
                0 => t.clone(),
                1 | 2 => reshape(&mut r, &t),
                3 => mutate(&mut r, &t),
                _ => rand_tree(&mut r, depth),
            };
            let how = *r.pick(&[Build::Fresh, Build::RightFirst, Build::Shared, Build::Junk]);
            acc.count(match kind {
                0 => "kind_identical",
                1 | 2 => "kind_reshaped",
                3 => "kind_mutant",
                _ => "kind_unrelated",
            });
            check_case::<Simple>(&t, &p, how, acc);
            check_case::<Basic>(&t, &p, how, acc);
            // reflexivity on a fresh copy and transitivity over a third reshaped value
            if kind == 1 || kind == 2 {
                let q = reshape(&mut r, &p);
                let (tp, pq, tq) = (ref_eq(&t, &p), ref_eq(&p, &q), ref_eq(&t, &q));
                if tp && pq {
                    acc.count("transitivity_triples");
                    if !tq {
                        acc.inconclusive.push(format!("reference equality not transitive on {} / {} / {}", t.show(), p.show(), q.show()));
                    }
                    let o1 = check_pair::<Simple>(&t, &q, how, acc);
                    let o2 = check_pair::<Basic>(&t, &q, how, acc);
                    let o3 = check_pair::<Simple>(&p, &q, how, acc);
                    let _ = (o1, o2, o3);
                }
            }
            acc.distinct.insert(fnv_str(&format!("{}|{}", t.show(), p.show())));
            if i % 5003 == 0 {
                acc.sample(Json::s(format!("({:?}) {} == {} -> reference {}", how, t.show(), p.show(), ref_eq(&t, &p))));
            }
        }
    });
    let rule = format!(
        "exhaustive: all ordered pairs of {} values (31 leaves of 14 kinds + every pair/list/concatenation of width <= 2 over 9 base values), Equal and NotEqual on both stores, under a sentinel operand; random: {} trees of depth <= {} each paired with an identical copy / a reshaped equivalent (list<->concatenation regrouping, char<->1-char list, int<->float) / a one-point mutant / an unrelated tree, four construction orders (fresh, right-first, shared sub-values, junk in between), every eighth case a value that holds one shared sub-value twice or three times (against its flat spelling, the single value, a longer repetition), both operand orders, plus a third reshaped value for transitivity. Distinct = distinct (a,b) value pairs.",
        n1, random_total, depth
    );
    (acc, rule, false)
}

pub const ASSUMPTIONS: &[&str] = &["reference: structural equality on V with list/concatenation flattening exactly as both stores' concatenation iterators splice (lists directly under a concatenation are spliced, nested lists are items)", "NaN excluded (reflexivity is not demanded of NaN)", "symbol lists hold symbols only (SimpleGarnishData cannot store numeric parts)"];
