//! C05 — see props/sweep.rs (shared compile-pipeline sweep) for the corpus and the judge.

use crate::props::sweep::{run as sweep, Which};
use crate::run::{Acc, Ctx};

pub fn run(ctx: &Ctx) -> (Acc, String, bool) {
    sweep(ctx, Which::C05)
}

pub const ASSUMPTIONS: &[&str] = &[
    "placeholders are identified from the monitored build's event log (an entry pushed as 0 while instructions already exist), not guessed from the final value",
    "a straight-line run is closed when the last emitted instruction is EndExpression or JumpTo (every entry point can only run forward into it)",
];
