//! C17 Host extension points are called exactly as documented.
//!
//! Every program is run under a host whose every callback is recorded (`resolve(symbol)`,
//! `apply(external, argument)`), in two ways: answered by the wrapper's script at the `GarnishData`
//! boundary, and answered natively through the stores' own extension points
//! (`SimpleGarnishData::set_resolver`, `BasicDataCompanion::{resolve, apply}`), where an independent
//! log inside the callback is compared with what crossed the trait boundary. The expected log and the
//! final value come from the reference evaluator: input value first, host exactly once per evaluated
//! occurrence and only after the input lookup failed, unit when declined, the callback's result used
//! as the value of exactly that occurrence.

use crate::ast::{all_of_size, rand_program, well_formed, Bin, GenCfg, Un, E};
use crate::hostlog::{disagreement, Checked, HostCfg};
use crate::native::{simple_with_native_resolver, BasicN};
use crate::pool::{kv, list, sym_u};
use crate::prog::printer_selfcheck;
use crate::props::c01::{children, has_reapply, shape};
use crate::run::{run_cases, Acc, Ctx};
use crate::store::{Basic, Simple, Store};
use crate::util::{fnv_str, Json, Rng};
use crate::value::V;
use std::collections::HashMap;

const IDS: [&str; 6] = ["x", "y", "zed", "w", "f", "g"];

fn names(s: u64) -> String {
    for n in IDS.iter().chain(["k", "name", "a", "b"].iter()) {
        if sym_u(n) == s {
            return n.to_string();
        }
    }
    format!("#{:x}", s)
}

/// what `$` defines: none / some / all of the identifiers, some of them as externals
fn inputs() -> Vec<V> {
    vec![
        V::Unit,
        V::Int(3),
        list(vec![kv("x", V::Int(1))]),
        list(vec![kv("x", V::Int(1)), kv("y", V::str("s")), V::Int(5)]),
        list(vec![kv("x", V::Unit), kv("f", V::External(2))]),
        list(vec![kv("x", V::Int(1)), kv("y", V::Int(2)), kv("zed", V::Int(3)), kv("w", V::Int(4)), kv("f", V::External(5)), kv("g", V::External(6))]),
        V::pair(V::sym("y"), V::External(9)),
        V::External(4),
        // a concatenation answers identifiers from both of its sides
        crate::pool::concat(list(vec![kv("x", V::Int(7))]), list(vec![kv("zed", V::Int(8)), kv("f", V::External(2)), V::Int(9)])),
        crate::pool::concat(V::pair(V::sym("y"), V::Int(1)), V::pair(V::sym("w"), V::Unit)),
        // slices answer identifiers from the sliced positions only; a text slice answers none
        crate::pool::slice(list(vec![kv("y", V::Int(0)), kv("x", V::Int(11)), kv("f", V::External(2)), kv("w", V::Int(13))]), 1, 2),
        crate::pool::slice(crate::pool::concat(list(vec![kv("x", V::Int(21)), kv("y", V::External(4))]), list(vec![kv("zed", V::Int(23)), V::Int(24)])), 0, 2),
        crate::pool::slice(V::str("héllo"), 1, 3),
    ]
}

/// host scripts: resolve none / some / all symbols; plain values and externals
fn hosts() -> Vec<HashMap<u64, V>> {
    let mk = |xs: &[(&str, V)]| -> HashMap<u64, V> { xs.iter().map(|(k, v)| (sym_u(k), v.clone())).collect() };
    vec![
        mk(&[]),
        mk(&[("x", V::Int(42))]),
        mk(&[("y", V::External(7)), ("w", list(vec![V::Int(1), V::Int(2)]))]),
        mk(&[("x", V::Int(10)), ("y", V::External(7)), ("zed", V::str("z")), ("w", V::Unit), ("f", V::External(1)), ("g", V::External(0))]),
        mk(&[("x", V::External(3)), ("y", V::External(3)), ("f", list(vec![kv("x", V::External(8))]))]),
    ]
}

fn id(n: &str) -> E {
    E::Ident(n.to_string())
}
fn bin(o: Bin, l: E, r: E) -> E {
    E::Bin(o, l.b(), r.b())
}
fn g_(e: E) -> E {
    E::Group(e.b())
}

/// identifiers and externals at operand positions the small enumeration does not reach
fn templates() -> Vec<E> {
    let (x, y, f, g, w) = (id("x"), id("y"), id("f"), id("g"), id("w"));
    let v = vec![
        bin(Bin::Apply, f.clone(), x.clone()),
        bin(Bin::ApplyTo, x.clone(), f.clone()),
        E::Un(Un::EmptyApply, f.clone().b()),
        bin(Bin::Apply, f.clone(), g_(E::Comma(vec![x.clone(), y.clone()], false))),
        bin(Bin::Add, g_(bin(Bin::Apply, f.clone(), x.clone())), g_(bin(Bin::Apply, g.clone(), y.clone()))),
        bin(Bin::Apply, f.clone(), g_(bin(Bin::Apply, g.clone(), x.clone()))),
        bin(Bin::ApplyTo, bin(Bin::ApplyTo, x.clone(), g.clone()), f.clone()),
        E::Cond(vec![(false, w.clone(), bin(Bin::Apply, f.clone(), x.clone()))], Some(bin(Bin::Apply, g.clone(), y.clone()).b())),
        E::Cond(vec![(true, g_(bin(Bin::Apply, f.clone(), x.clone())), y.clone())], Some(w.clone().b())),
        bin(Bin::Apply, E::Nested(bin(Bin::Apply, f.clone(), E::Input).b()), x.clone()),
        bin(Bin::ApplyTo, x.clone(), E::Nested(E::List(vec![g_(bin(Bin::Apply, f.clone(), E::Input)), g_(bin(Bin::Apply, g.clone(), y.clone()))]).b())),
        bin(Bin::And, g_(bin(Bin::Apply, f.clone(), x.clone())), g_(bin(Bin::Apply, g.clone(), y.clone()))),
        bin(Bin::Or, g_(bin(Bin::Apply, f.clone(), x.clone())), g_(bin(Bin::Apply, g.clone(), y.clone()))),
        E::List(vec![g_(bin(Bin::Apply, f.clone(), E::Int(1))), g_(bin(Bin::Apply, f.clone(), E::Int(2))), g_(bin(Bin::Apply, f.clone(), E::Int(1)))]),
        E::Comma(vec![x.clone(), x.clone(), y.clone(), x.clone()], false),
        bin(Bin::Pair, E::Sym("k".into()), g_(bin(Bin::Apply, f.clone(), x.clone()))),
        bin(Bin::Access, g_(bin(Bin::Apply, f.clone(), x.clone())), E::Int(1)),
        bin(Bin::Apply, g_(E::Comma(vec![bin(Bin::Pair, E::Sym("k".into()), f.clone())], true)), E::Sym("k".into())),
        bin(Bin::Apply, g_(bin(Bin::Access, g_(E::Comma(vec![bin(Bin::Pair, E::Sym("k".into()), f.clone())], true)), E::Prop("k".into()))), y.clone()),
        E::Seq(vec![bin(Bin::Apply, f.clone(), x.clone()), bin(Bin::Apply, g.clone(), y.clone())], true),
        E::Seq(vec![x.clone(), bin(Bin::Apply, f.clone(), E::Input)], false),
        E::Effect(x.clone().b(), bin(Bin::Apply, f.clone(), y.clone()).b()),
        bin(Bin::Apply, f.clone(), E::Str("héllo".into())),
        bin(Bin::Apply, f.clone(), g_(E::List(vec![E::Int(1), bin(Bin::Pair, E::Sym("k".into()), E::Str("ab".into())), E::Unit]))),
        bin(Bin::Apply, f.clone(), f.clone()),
        bin(Bin::Eq, x.clone(), x.clone()),
        E::Un(Un::Neg, x.clone().b()),
        E::Un(Un::TypeOf, f.clone().b()),
        E::Un(Un::Tis, y.clone().b()),
        // partial applications: of a host-provided value (never applied, whatever it is: no callback) and of an
        // expression whose body consults the host
        bin(Bin::Apply, g_(bin(Bin::Partial, f.clone(), E::Int(5))), E::Int(6)),
        bin(Bin::ApplyTo, E::Int(6), g_(bin(Bin::Partial, f.clone(), x.clone()))),
        E::Un(Un::EmptyApply, g_(bin(Bin::Partial, f.clone(), E::Int(5))).b()),
        bin(Bin::Partial, f.clone(), x.clone()),
        bin(Bin::Apply, g_(bin(Bin::Partial, E::Nested(bin(Bin::Apply, f.clone(), E::Input).b()), x.clone())), y.clone()),
        E::Un(Un::EmptyApply, g_(bin(Bin::Partial, E::Nested(E::List(vec![x.clone(), E::Input]).b()), g.clone())).b()),
    ];
    v.into_iter().filter(|e| well_formed(e)).collect()
}

fn minimise<'e>(e: &'e E, check: &dyn Fn(&E) -> Option<Checked>, class: &str) -> &'e E {
    let mut cur = e;
    loop {
        let mut next = None;
        for c in children(cur) {
            if has_reapply(c) {
                continue;
            }
            if let Some(k) = check(c) {
                if k.class == class {
                    next = Some(c);
                    break;
                }
            }
        }
        match next {
            Some(c) => cur = c,
            None => return cur,
        }
    }
}

/// the four ways a program meets a host
fn on_store(which: usize, e: &E, input: &V, resolves: &HashMap<u64, V>, accept: bool, max_steps: u64, acc: &mut Acc) -> Option<Checked> {
    match which {
        0 => disagreement::<Simple>(e, input, &HostCfg { resolves: resolves.clone(), apply_accept: accept, native: false }, &Simple::fresh, max_steps, &names, acc),
        1 => disagreement::<Basic>(e, input, &HostCfg { resolves: resolves.clone(), apply_accept: accept, native: false }, &Basic::fresh, max_steps, &names, acc),
        // SimpleGarnishData has a resolver hook only: external applies are always declined there
        2 => disagreement::<Simple>(e, input, &HostCfg { resolves: resolves.clone(), apply_accept: false, native: true }, &simple_with_native_resolver, max_steps, &names, acc),
        _ => disagreement::<BasicN>(e, input, &HostCfg { resolves: resolves.clone(), apply_accept: accept, native: true }, &BasicN::fresh, max_steps, &names, acc),
    }
}

pub fn check_program(e: &E, input: &V, resolves: &HashMap<u64, V>, accept: bool, max_steps: u64, acc: &mut Acc) {
    let src = e.print();
    if let Err(msg) = printer_selfcheck(e, &src) {
        acc.count("printer_selfcheck_failed");
        acc.seen("printer_selfcheck_samples", msg.chars().take(160).collect::<String>());
        return;
    }
    for which in 0..4 {
        acc.count(["runs_simple_wrapper_host", "runs_basic_wrapper_host", "runs_simple_native_resolver", "runs_basic_native_companion"][which]);
        if let Some(k) = on_store(which, e, input, resolves, accept, max_steps, acc) {
            let seen = acc.counters.get(&format!("raw::{}", k.class)).cloned().unwrap_or(0);
            acc.count(&format!("raw::{}", k.class));
            if seen >= 40 {
                continue;
            }
            let chk = |x: &E| -> Option<Checked> {
                let mut dummy = Acc::default();
                on_store(which, x, input, resolves, accept, 5_000, &mut dummy)
            };
            let min = if has_reapply(e) { e } else { minimise(e, &chk, &k.class) };
            acc.violation(
                format!("{}|{}", k.class, shape(min, 2)),
                format!("{} [minimal sub-program {:?}]", k.desc, min.print()),
                Json::obj().with("source", Json::s(src.clone())).with("input", input.json()).with("minimal", Json::s(min.print())).with("apply_accept", Json::Bool(accept)),
            );
        }
    }
}

pub fn run(ctx: &Ctx) -> (Acc, String, bool) {
    let ins = inputs();
    let hs = hosts();
    let tmpl = templates();
    let k = ctx.pick(2usize, 3usize);
    let mut cache: Vec<Vec<E>> = vec![vec![]];
    let mut small: Vec<E> = vec![];
    for n in 1..=k {
        small.extend(all_of_size(n, &mut cache));
    }
    // only programs that mention an identifier can reach the host
    let small: Vec<E> = small
        .into_iter()
        .filter(|e| {
            let mut v = vec![];
            e.idents(&mut v);
            !v.is_empty()
        })
        .collect();
    let cfgs = (ins.len() * hs.len() * 2) as u64;
    let small_cfgs: Vec<(usize, usize)> = if ctx.quick() { vec![(0, 0), (0, 3), (3, 1), (5, 4), (8, 3), (10, 1), (11, 0), (12, 3)] } else { vec![(0, 0), (0, 3), (0, 4), (2, 1), (3, 1), (3, 3), (4, 2), (5, 4), (6, 2), (8, 3), (9, 1), (10, 1), (10, 3), (11, 0), (11, 4), (12, 3)] };
    let small_total = small.len() as u64 * small_cfgs.len() as u64;
    let tmpl_total = tmpl.len() as u64 * cfgs;
    let random_total: u64 = ctx.pick(200_000, 15_000_000);
    let seed = ctx.seed;
    let gen_cfg = GenCfg { idents: IDS.iter().map(|s| s.to_string()).collect(), ..GenCfg::default() };
    let acc = run_cases(ctx, tmpl_total + small_total + random_total, |i, acc| {
        if i < tmpl_total {
            let t = &tmpl[(i / cfgs) as usize];
            let c = i % cfgs;
            let input = &ins[(c / (hs.len() as u64 * 2)) as usize];
            let h = &hs[((c / 2) % hs.len() as u64) as usize];
            check_program(t, input, h, c % 2 == 0, 5_000, acc);
            acc.nontrivial += 1;
            acc.count("template_runs");
        } else if i < tmpl_total + small_total {
            let j = i - tmpl_total;
            let e = &small[(j / small_cfgs.len() as u64) as usize];
            let (ii, hi) = small_cfgs[(j % small_cfgs.len() as u64) as usize];
            check_program(e, &ins[ii], &hs[hi], j % 2 == 0, 5_000, acc);
            acc.nontrivial += 1;
        } else {
            let mut r = Rng::for_case(seed, i);
            let depth = 2 + r.below(4);
            let e = rand_program(&mut r, depth, &gen_cfg);
            let input = r.pick(&ins).clone();
            let mut h = HashMap::new();
            let density = r.below(4);
            for n in IDS.iter() {
                if r.below(3) < density {
                    let v = match r.below(6) {
                        0 | 1 => V::External(r.below(10) as usize),
                        2 => V::Int(r.range(-3, 50) as i32),
                        3 => list(vec![kv("x", V::Int(1)), V::External(2)]),
                        4 => V::Unit,
                        _ => V::str("v"),
                    };
                    h.insert(sym_u(n), v);
                }
            }
            acc.distinct.insert(fnv_str(&format!("{}|{}|{}", e.print(), input.show(), h.len())));
            check_program(&e, &input, &h, r.chance(1, 2), 20_000, acc);
            if i % 20_011 == 0 {
                acc.sample(Json::s(format!("random {:?} with $ = {}, host resolves {} symbols", e.print(), input.show(), h.len())));
            }
        }
    });
    let rule = format!(
        "{} templates with identifiers / externals at operand positions of apply, apply-to, empty apply, lists, pairs, access, conditionals, logic, nested expressions, sequences and side effects x {} input values (defining none/some/all identifiers, some as externals) x {} host scripts (resolving none/some/all symbols, to values and externals) x accept/decline external applies; every core-language AST of <= {} nodes that mentions an identifier ({} programs) x {} (input, host) configurations; {} random programs. Each run four ways: wrapper-scripted host on SimpleGarnishData and BasicGarnishData, native resolver hook on SimpleGarnishData, native companion (resolve + apply) on BasicGarnishData. Recorded call log and final value are compared with the reference evaluator's; the callback-side log with the trait-boundary log.",
        tmpl.len(),
        ins.len(),
        hs.len(),
        k,
        small.len(),
        small_cfgs.len(),
        random_total
    );
    (acc, rule, false)
}

pub const ASSUMPTIONS: &[&str] = &[
    "the reference evaluator's lookup rule: an identifier is answered by the input value when that is a list / pair / concatenation holding the symbol as a key, otherwise by the host; operands are evaluated left to right",
    "SimpleGarnishData exposes no apply hook, so natively-hosted runs on it expect every external apply to be declined (unit); external apply acceptance is exercised natively on BasicGarnishData and through the wrapper on both",
    "programs whose meaning the reference evaluator does not pin are skipped, value and log",
];
