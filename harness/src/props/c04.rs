//! C04 — see props/sweep.rs (shared compile-pipeline sweep) for the corpus and the judge.

use crate::props::sweep::{run as sweep, Which};
use crate::run::{Acc, Ctx};

pub fn run(ctx: &Ctx) -> (Acc, String, bool) {
    sweep(ctx, Which::C04)
}

pub const ASSUMPTIONS: &[&str] = &[
    "significant tokens = all but whitespace, annotations and closing brackets; separators (blank line, ;) may be dropped when redundant but must stay in order; synthesized space-list nodes are transparent",
    "pure structure (group, else connector, a list node nested directly in a list of the same kind) is accounted through its children for the one-instruction-per-node clause",
];
