//! C15 Stored values read back unchanged, however the store grows.
//! Histories of operations over all tables, checked after every operation against an abstract
//! model of independent growable tables; structural invariants through the verif hooks.

use crate::run::{run_cases, Acc, Ctx};
use crate::store::{Basic, Simple, Store};
use crate::util::{fnv_str, guarded, panic_site, Json, Rng};
use crate::value::{construct, readback, Mk, V};
use garnish_lang_simple_data::{BasicGarnishData, NoOpCompanion, SimpleNumber};
use garnish_lang_traits::{GarnishData, GarnishDataType, Instruction as I};

#[derive(Clone, Copy, Debug, PartialEq)]
pub enum Op {
    AddNum,
    AddText,
    AddSym,
    AddCompound,
    PushInstr,
    Jump,
    Reg,
    Val,
    Frame,
}
pub const OPS: [Op; 9] = [Op::AddNum, Op::AddText, Op::AddSym, Op::AddCompound, Op::PushInstr, Op::Jump, Op::Reg, Op::Val, Op::Frame];

#[derive(Default, Clone)]
struct Model {
    values: Vec<(usize, V)>,
    syms: Vec<(u64, String)>,
    instrs: Vec<(usize, I, Option<usize>)>,
    jumps: Vec<usize>,
    regs: Vec<usize>,
    vals: Vec<usize>,
    /// (return, operand depth at push)
    frames: Vec<(usize, usize)>,
    instr_base: usize,
    jump_base: usize,
    /// (address, parts) of the symbol list made by the latest AddSym, and the address of the first symbol added
    last_symlist: Option<(usize, Vec<u64>)>,
    sym_addrs: Vec<(usize, u64)>,
}

pub trait Hooks: Store + Mk {
    /// structural invariant of the implementation at a quiescent point; Err = description
    fn invariant(&self) -> Result<(), String>;
}

impl Hooks for Simple {
    fn invariant(&self) -> Result<(), String> {
        let n = self.get_data_len();
        for (_k, a) in self.verif_cache() {
            if a >= n {
                return Err(format!("intern cache points at {} beyond data length {}", a, n));
            }
            match self.get_data_type(a) {
                Ok(GarnishDataType::Custom) | Ok(GarnishDataType::Invalid) | Err(_) => return Err(format!("intern cache points at a non-value at {}", a)),
                _ => {}
            }
        }
        Ok(())
    }
}

impl Hooks for Basic {
    fn invariant(&self) -> Result<(), String> {
        let blocks = self.verif_blocks();
        let mut pos = 0usize;
        let names = ["instruction", "jump", "symbol", "expr-symbol", "data", "custom"];
        for (i, (start, cursor, size)) in blocks.iter().enumerate() {
            if *start != pos {
                return Err(format!("{} block starts at {} but the previous block ends at {}", names[i], start, pos));
            }
            if cursor > size {
                return Err(format!("{} block cursor {} beyond size {}", names[i], cursor, size));
            }
            pos += size;
        }
        if pos != self.verif_heap_len() {
            return Err(format!("blocks cover {} cells but the heap has {}", pos, self.verif_heap_len()));
        }
        let dcur = blocks[4].1;
        let (r, v, f) = self.verif_heads();
        for (n, h) in [("register", r), ("value", v), ("frame", f)] {
            if let Some(i) = h {
                if i >= dcur {
                    return Err(format!("current {} head {} beyond data cursor {}", n, i, dcur));
                }
            }
        }
        for (_s, idx) in self.verif_symbol_table() {
            if idx >= dcur {
                return Err(format!("symbol table names data index {} beyond data cursor {}", idx, dcur));
            }
        }
        Ok(())
    }
}

fn basic_with(initial: usize, mult: bool, by: usize) -> Basic {
    BasicGarnishData::verif_new_with_growth(initial, mult, by, NoOpCompanion::new()).expect("verif_new_with_growth")
}

pub fn basic_configs() -> Vec<(String, ReallocInit)> {
    let mut v = vec![];
    for init in [0usize, 1, 2] {
        v.push((format!("init{},+1", init), ReallocInit { initial: init, mult: false, by: 1 }));
        v.push((format!("init{},+2", init), ReallocInit { initial: init, mult: false, by: 2 }));
        if init > 0 {
            v.push((format!("init{},x2", init), ReallocInit { initial: init, mult: true, by: 2 }));
        }
    }
    v.push(("default".to_string(), ReallocInit { initial: 10, mult: false, by: 10 }));
    v
}

#[derive(Clone, Copy)]
pub struct ReallocInit {
    initial: usize,
    mult: bool,
    by: usize,
}
impl ReallocInit {
    fn make(&self) -> Basic {
        basic_with(self.initial, self.mult, self.by)
    }
}

struct Runner<'a, D: Hooks> {
    d: D,
    m: Model,
    cfg: &'a str,
    step: usize,
    failed: bool,
}

impl<'a, D: Hooks> Runner<'a, D> {
    fn viol(&mut self, acc: &mut Acc, class: &str, table: &str, after: Op, desc: String, hist: &[Op]) {
        self.failed = true;
        acc.violation(
            format!("{}|{}|{}|{}|after:{:?}", class, table, D::NAME, self.cfg, after),
            format!("[{} {}] {} (history {:?}, step {})", D::NAME, self.cfg, desc, hist, self.step),
            Json::obj()
                .with("store", Json::s(D::NAME))
                .with("config", Json::s(self.cfg))
                .with("history", Json::s(format!("{:?}", hist)))
                .with("step", Json::i(self.step as i64)),
        );
    }

    fn apply(&mut self, op: Op, acc: &mut Acc, hist: &[Op]) {
        let k = self.step;
        let r: Result<Result<(), String>, (String, String)> = {
            let d = &mut self.d;
            let m = &mut self.m;
            guarded(|| -> Result<(), String> {
                let es = |e: garnish_lang_simple_data::DataError| e.to_string();
                match op {
                    Op::AddNum => {
                        let v = if k % 2 == 0 { V::Int(1000 + k as i32) } else { V::Float(0.25 + k as f64) };
                        let a = construct(d, &v).map_err(es)?;
                        m.values.push((a, v.clone()));
                        // an integer also as the symbol its text spells (what a cast to a symbol does), and then that
                        // text as a constant of its own: a temporary rendering must leave nothing behind
                        if let V::Int(n) = v {
                            let text = format!("{}", n);
                            let sa = d.add_symbol_from(a).map_err(es)?;
                            m.values.push((sa, V::Sym(garnish_lang_simple_data::symbol_value(&text))));
                            let tv = V::CharList(text);
                            let ta = construct(d, &tv).map_err(es)?;
                            m.values.push((ta, tv));
                        }
                    }
                    Op::AddText => {
                        let v = if k % 2 == 0 { V::CharList(format!("s{}é", k)) } else { V::ByteList(vec![k as u8, 255, 0]) };
                        let a = construct(d, &v).map_err(es)?;
                        m.values.push((a, v));
                    }
                    Op::AddSym => {
                        // every other name holds multi-byte characters (character count and byte length differ)
                        let name = if k % 2 == 0 { format!("nm{}", k) } else { format!("größe{}é", k) };
                        // the list made by the previous AddSym, if nothing was added since, is the last thing in the data
                        // table: extending it with a symbol that existed before it must make a new list, not grow the old one
                        if let (Some((la, parts)), Some((fa, fs))) = (m.last_symlist.clone(), m.sym_addrs.first().cloned()) {
                            let na = d.merge_to_symbol_list(la, fa).map_err(es)?;
                            let mut np = parts.clone();
                            np.push(fs);
                            m.values.push((na, V::SymList(np.iter().map(|x| crate::value::SymPart::Sym(*x)).collect())));
                        }
                        let a = d.parse_add_symbol(&name).map_err(es)?;
                        let s = garnish_lang_simple_data::symbol_value(&name);
                        m.values.push((a, V::Sym(s)));
                        m.syms.push((s, name));
                        if let Some((pa, ps)) = m.sym_addrs.last().cloned() {
                            let la = d.merge_to_symbol_list(pa, a).map_err(es)?;
                            m.values.push((la, V::SymList(vec![crate::value::SymPart::Sym(ps), crate::value::SymPart::Sym(s)])));
                            m.last_symlist = Some((la, vec![ps, s]));
                        }
                        m.sym_addrs.push((a, s));
                    }
                    Op::AddCompound => {
                        let n = m.values.len();
                        if n >= 2 {
                            if k % 2 == 0 {
                                let (l, r) = (m.values[n - 1].clone(), m.values[n - 2].clone());
                                let a = d.add_pair((l.0, r.0)).map_err(es)?;
                                m.values.push((a, V::pair(l.1, r.1)));
                            } else {
                                let items: Vec<(usize, V)> = m.values[n.saturating_sub(3)..].to_vec();
                                let mut li = d.start_list(items.len()).map_err(es)?;
                                for it in &items {
                                    li = d.add_to_list(li, it.0).map_err(es)?;
                                }
                                let a = d.end_list(li).map_err(es)?;
                                m.values.push((a, V::List(items.into_iter().map(|x| x.1).collect())));
                            }
                        } else {
                            let a = d.add_external(k).map_err(es)?;
                            m.values.push((a, V::External(k)));
                        }
                    }
                    Op::PushInstr => {
                        let (ins, data) = if k % 2 == 0 { (I::Put, Some(k)) } else { (I::Add, None) };
                        let i = d.push_instruction(ins, data).map_err(es)?;
                        m.instrs.push((i, ins, data));
                    }
                    Op::Jump => {
                        d.push_to_jump_table(k * 3 + 1).map_err(es)?;
                        m.jumps.push(k * 3 + 1);
                        if m.jumps.len() >= 2 {
                            let j = k % m.jumps.len();
                            match d.get_from_jump_table_mut(m.jump_base + j) {
                                Some(p) => *p = 7000 + k,
                                None => return Err(format!("get_from_jump_table_mut({}) is None", m.jump_base + j)),
                            }
                            m.jumps[j] = 7000 + k;
                        }
                    }
                    Op::Reg => {
                        let above = m.regs.len() - m.frames.last().map(|f| f.1).unwrap_or(0);
                        if k % 3 == 2 && above > 0 {
                            let got = d.pop_register().map_err(es)?;
                            let want = m.regs.pop();
                            if got != want {
                                return Err(format!("pop_register returned {:?}, model {:?}", got, want));
                            }
                        } else {
                            let a = m.values.last().map(|x| x.0).unwrap_or(d.add_unit().map_err(es)?);
                            d.push_register(a).map_err(es)?;
                            m.regs.push(a);
                        }
                    }
                    Op::Val => {
                        if k % 3 == 2 && !m.vals.is_empty() {
                            let got = d.pop_value_stack();
                            let want = m.vals.pop();
                            if got != want {
                                return Err(format!("pop_value_stack returned {:?}, model {:?}", got, want));
                            }
                        } else {
                            let a = m.values.first().map(|x| x.0).unwrap_or(d.add_unit().map_err(es)?);
                            d.push_value_stack(a).map_err(es)?;
                            m.vals.push(a);
                        }
                    }
                    Op::Frame => {
                        if k % 3 == 2 && !m.frames.is_empty() {
                            let got = d.pop_frame().map_err(es)?;
                            let (ret, base) = m.frames.pop().unwrap();
                            m.regs.truncate(base);
                            if got != Some(ret) {
                                return Err(format!("pop_frame returned {:?}, model {}", got, ret));
                            }
                        } else {
                            d.push_frame(500 + k).map_err(es)?;
                            m.frames.push((500 + k, m.regs.len()));
                        }
                    }
                }
                Ok(())
            })
        };
        match r {
            Ok(Ok(())) => {}
            Ok(Err(e)) => self.viol(acc, "op-failed", &format!("{:?}", op), op, format!("operation {:?} failed or answered wrongly: {}", op, e), hist),
            Err((msg, loc)) => {
                let site = panic_site(&loc);
                self.viol(acc, &format!("panic@{}", site), &format!("{:?}", op), op, format!("operation {:?} panicked: {} at {}", op, msg, loc), hist)
            }
        }
    }

    fn sweep(&mut self, after: Op, acc: &mut Acc, hist: &[Op], full: bool, r: Option<&mut Rng>) {
        if self.failed {
            return;
        }
        let res: Result<Result<(), (String, String)>, (String, String)> = {
            let d = &self.d;
            let m = &self.m;
            let mut rr = r;
            guarded(|| -> Result<(), (String, String)> {
                let bad = |t: &str, s: String| Err((t.to_string(), s));
                // data
                let nvals = m.values.len();
                for (i, (a, v)) in m.values.iter().enumerate() {
                    if !full {
                        if let Some(r) = rr.as_deref_mut() {
                            if nvals > 24 && i + 8 < nvals && !r.chance(1, 16) {
                                continue;
                            }
                        }
                    }
                    match readback(d, *a) {
                        Ok(x) if x == *v => {}
                        other => return bad("data", format!("value added as {} at {} now reads back {:?}", v.show(), a, other.map(|x| x.show()))),
                    }
                }
                for (s, name) in &m.syms {
                    let got = d.symbol_name(*s);
                    if got.as_deref() != Some(name.as_str()) {
                        return bad("symbol-names", format!("symbol {:x} written as {:?} now named {:?}", s, name, got));
                    }
                }
                // instructions
                if d.get_instruction_len() != m.instr_base + m.instrs.len() {
                    return bad("instructions", format!("get_instruction_len {} model {}", d.get_instruction_len(), m.instr_base + m.instrs.len()));
                }
                for (i, ins, data) in &m.instrs {
                    if d.get_instruction(*i) != Some((*ins, *data)) {
                        return bad("instructions", format!("instruction {} pushed as {:?} {:?} now {:?}", i, ins, data, d.get_instruction(*i)));
                    }
                }
                // jump table
                if d.get_jump_table_len() != m.jump_base + m.jumps.len() {
                    return bad("jump-table", format!("get_jump_table_len {} model {}", d.get_jump_table_len(), m.jump_base + m.jumps.len()));
                }
                for (j, t) in m.jumps.iter().enumerate() {
                    if d.get_from_jump_table(m.jump_base + j) != Some(*t) {
                        return bad("jump-table", format!("jump entry {} written {} now {:?}", j, t, d.get_from_jump_table(m.jump_base + j)));
                    }
                }
                // registers
                let expect_len = if D::FRAMES_IN_REGISTERS { m.regs.len() + m.frames.len() } else { m.regs.len() };
                if d.get_register_len() != expect_len {
                    return bad("registers", format!("get_register_len {} model {}", d.get_register_len(), expect_len));
                }
                if !D::FRAMES_IN_REGISTERS {
                    for (i, a) in m.regs.iter().enumerate() {
                        if d.get_register(i) != Some(*a) {
                            return bad("registers", format!("register {} pushed {} now {:?}", i, a, d.get_register(i)));
                        }
                    }
                } else {
                    // frame cells sit between operands: operand i lives at i + (frames whose base <= i)
                    for (i, a) in m.regs.iter().enumerate() {
                        let shift = m.frames.iter().filter(|f| f.1 <= i).count();
                        if d.get_register(i + shift) != Some(*a) {
                            return bad("registers", format!("register {} pushed {} now {:?}", i, a, d.get_register(i + shift)));
                        }
                    }
                }
                // value stack
                if d.value_stack_entries() != m.vals {
                    return bad("values", format!("value stack {:?} model {:?}", d.value_stack_entries(), m.vals));
                }
                if d.get_current_value() != m.vals.last().cloned() {
                    return bad("values", format!("current value {:?} model {:?}", d.get_current_value(), m.vals.last()));
                }
                // frames
                let want: Vec<usize> = m.frames.iter().rev().map(|f| f.0).collect();
                if d.frame_returns() != want {
                    return bad("frames", format!("frame chain {:?} model {:?}", d.frame_returns(), want));
                }
                if let Err(e) = d.invariant() {
                    return bad("structure", e);
                }
                Ok(())
            })
        };
        match res {
            Ok(Ok(())) => {}
            Ok(Err((table, desc))) => self.viol(acc, "readback-changed", &table, after, desc, hist),
            Err((msg, loc)) => {
                let site = panic_site(&loc);
                self.viol(acc, &format!("panic@{}", site), "sweep", after, format!("reading back panicked: {} at {}", msg, loc), hist)
            }
        }
    }
}

fn run_history<D: Hooks>(d: D, cfg: &str, hist: &[Op], acc: &mut Acc, grew: &mut bool) {
    let mut run = Runner { m: Model { instr_base: d.get_instruction_len(), jump_base: d.get_jump_table_len(), ..Default::default() }, d, cfg, step: 0, failed: false };
    let len0 = run.d.get_data_len();
    for (i, op) in hist.iter().enumerate() {
        run.step = i;
        acc.evals += 1;
        run.apply(*op, acc, &hist[..=i]);
        run.sweep(*op, acc, &hist[..=i], true, None);
        if run.failed {
            return;
        }
    }
    if run.d.get_data_len() > len0 {
        *grew = true;
    }
}

// ---------------------------------------------------------------- Simple interning

fn intern_pool() -> Vec<V> {
    let alias = |s: &str| -> i32 {
        let b = s.as_bytes();
        i32::from_le_bytes([b[0], b[1], b[2], 0xFF])
    };
    vec![
        V::Float(1.5),
        V::Int(alias("1.5")),
        V::Float(100.0),
        V::Int(alias("100")),
        V::Float(f64::INFINITY),
        V::Int(alias("inf")),
        V::Int(1),
        V::Float(1.0),
        V::Char('a'),
        V::Byte(97),
        V::str("abc"),
        V::ByteList(vec![97, 98, 99]),
        V::Sym(7),
        V::External(7),
        V::Expr(7),
    ]
}

fn run_interning(seq: &[usize], acc: &mut Acc) {
    run_interning_pool(&intern_pool(), seq, acc)
}

/// groups of constants that agree in length and in a long prefix (or suffix) and differ in one
/// position: any interning key that looks at less than the whole value confuses them
fn near_collision_groups() -> Vec<Vec<V>> {
    let mut groups = vec![];
    for len in [1usize, 2, 7, 8, 9, 31, 32, 33, 63, 64, 65, 66, 127, 128, 129, 255, 256, 257, 1000, 4096] {
        let base: Vec<char> = std::iter::repeat('a').take(len).collect();
        let mut variants: Vec<String> = vec![base.iter().collect()];
        for pos in [0usize, len / 2, len.saturating_sub(2), len - 1] {
            let mut v = base.clone();
            v[pos.min(len - 1)] = 'b';
            variants.push(v.iter().collect());
        }
        let mut longer = base.clone();
        longer.push('a');
        variants.push(longer.iter().collect());
        variants.sort();
        variants.dedup();
        groups.push(variants.iter().map(|s| V::CharList(s.clone())).collect());
        groups.push(variants.iter().map(|s| V::ByteList(s.bytes().collect())).collect());
        // multi-byte text: same character count, different bytes
        let mb: Vec<String> = vec!["é".repeat(len), format!("{}è", "é".repeat(len - 1)), format!("è{}", "é".repeat(len - 1))];
        groups.push(mb.into_iter().map(V::CharList).collect());
    }
    groups.push(vec![V::Float(1.0), V::Float(1.0000000000000002), V::Float(0.9999999999999999), V::Int(1)]);
    groups.push(vec![V::Int(i32::MAX), V::Int(i32::MAX - 1), V::Float(2147483647.0), V::Float(2147483648.0)]);
    groups.push(vec![V::Sym(1), V::Sym(1 << 32), V::Sym((1 << 32) + 1), V::Sym(u64::MAX)]);
    groups.push(vec![V::Char('a'), V::Char('á'), V::Char('\u{10061}'), V::Byte(97)]);
    groups
}

/// many distinct constants in one store (a table that stops recording after some number of entries, or evicts,
/// only shows beyond it): add `n` distinct constants with other tables growing in between, then add each again
fn run_interning_volume(n: usize, r: &mut Rng, acc: &mut Acc) {
    let mut d = Simple::fresh();
    let strict_same = |x: &V, y: &V| x == y && std::mem::discriminant(x) == std::mem::discriminant(y);
    let values: Vec<V> = (0..n)
        .map(|i| match i % 5 {
            0 => V::Int(i as i32 * 7 + 1),
            1 => V::Float(i as f64 + 0.5),
            2 => V::CharList(format!("text{}", i)),
            3 => V::Sym(0x1000_0000 + i as u64 * 0x9E37),
            _ => V::ByteList(vec![(i % 251) as u8, (i / 251 % 251) as u8, (i / 63001) as u8]),
        })
        .collect();
    let mut addrs: Vec<usize> = vec![];
    for (i, v) in values.iter().enumerate() {
        acc.evals += 1;
        match construct(&mut d, v) {
            Ok(a) => addrs.push(a),
            Err(e) => {
                acc.violation(format!("op-failed|intern-volume|simple|{}", crate::pool::tname(v.type_of())), format!("adding constant #{} ({}) failed: {}", i, v.show(), e), Json::obj().with("count", Json::i(i as i64)));
                return;
            }
        }
        if r.chance(1, 7) {
            let _ = d.push_instruction(garnish_lang_traits::Instruction::Put, Some(addrs[r.below(addrs.len())]));
            let _ = d.push_to_jump_table(i);
        }
    }
    let mut uniq = std::collections::HashSet::new();
    for (i, a) in addrs.iter().enumerate() {
        if !uniq.insert(*a) {
            acc.violation(format!("aliased|intern-volume|simple|{}", crate::pool::tname(values[i].type_of())), format!("[simple] constant #{} {} was given an address already used by another of the {} distinct constants", i, values[i].show(), n), Json::obj().with("count", Json::i(n as i64)));
            return;
        }
    }
    let mut order: Vec<usize> = (0..n).collect();
    for k in (1..n).rev() {
        let m = r.below(k + 1);
        order.swap(k, m);
    }
    for i in order {
        acc.evals += 1;
        match construct(&mut d, &values[i]) {
            Ok(a) if a == addrs[i] => {}
            Ok(a) => {
                acc.violation(
                    format!("not-interned|intern-volume|simple|{}", crate::pool::tname(values[i].type_of())),
                    format!("[simple] with {} distinct constants in the store, adding constant #{} {} again returned {} (first time {})", n, i, values[i].show(), a, addrs[i]),
                    Json::obj().with("count", Json::i(n as i64)).with("index", Json::i(i as i64)),
                );
                return;
            }
            Err(e) => {
                acc.violation(format!("op-failed|intern-volume|simple|{}", crate::pool::tname(values[i].type_of())), format!("re-adding constant #{} failed: {}", i, e), Json::obj());
                return;
            }
        }
        match readback(&d, addrs[i]) {
            Ok(x) if strict_same(&x, &values[i]) => {}
            other => {
                acc.violation(format!("readback-changed|intern-volume|simple|{}", crate::pool::tname(values[i].type_of())), format!("[simple] constant #{} {} reads back {:?} once {} constants are stored", i, values[i].show(), other.map(|x| x.show()), n), Json::obj());
                return;
            }
        }
    }
    acc.count("interning_volume_runs");
    acc.max("interning_volume_constants", n as u64);
}

fn run_interning_pool(pool: &[V], seq: &[usize], acc: &mut Acc) {
    let mut d = Simple::fresh();
    let mut seen: Vec<(V, usize)> = vec![];
    for (step, pi) in seq.iter().enumerate() {
        acc.evals += 1;
        let v = &pool[*pi];
        let shown: Vec<String> = seq[..=step].iter().map(|i| pool[*i].show().chars().take(40).collect::<String>()).collect();
        let payload = Json::obj().with("sequence", Json::s(shown.join(" ; ")));
        let a = match construct(&mut d, v) {
            Ok(a) => a,
            Err(e) => {
                acc.violation(format!("op-failed|intern|simple|{}", crate::pool::tname(v.type_of())), format!("add of {} failed: {}", v.show(), e), payload);
                return;
            }
        };
        let strict_same = |x: &V, y: &V| x == y && std::mem::discriminant(x) == std::mem::discriminant(y);
        match readback(&d, a) {
            Ok(x) if strict_same(&x, v) => {}
            other => {
                acc.violation(
                    format!("readback-changed|intern|simple|add {}", crate::pool::tname(v.type_of())),
                    format!("[simple] adding {} returned address {} which reads back {:?} (sequence: {})", v.show().chars().take(80).collect::<String>(), a, other.map(|x| x.show().chars().take(80).collect::<String>()), shown.join(" ; ")),
                    payload,
                );
                return;
            }
        }
        match seen.iter().find(|(sv, _)| strict_same(sv, v)) {
            Some((_, a0)) => {
                if *a0 != a {
                    acc.violation(
                        format!("not-interned|intern|simple|{}", crate::pool::tname(v.type_of())),
                        format!("[simple] adding {} again returned {} (first time {})", v.show(), a, a0),
                        payload,
                    );
                    return;
                }
            }
            None => {
                if let Some((other, _)) = seen.iter().find(|(_, a0)| *a0 == a) {
                    acc.violation(
                        format!("aliased|intern|simple|{}", crate::pool::tname(v.type_of())),
                        format!("[simple] new constant {} was given the address {} of the different constant {}", v.show(), a, other.show()),
                        payload,
                    );
                    return;
                }
                seen.push((v.clone(), a));
            }
        }
        for (sv, sa) in &seen {
            match readback(&d, *sa) {
                Ok(x) if strict_same(&x, sv) => {}
                other => {
                    acc.violation(
                        format!("readback-changed|intern|simple|later {}", crate::pool::tname(sv.type_of())),
                        format!("[simple] {} at {} reads back {:?} after adding {}", sv.show(), sa, other.map(|x| x.show()), v.show()),
                        payload,
                    );
                    return;
                }
            }
        }
        if let Err(e) = d.invariant() {
            acc.violation("structure|intern|simple".to_string(), format!("[simple] {}", e), payload);
            return;
        }
    }
}

pub fn run(ctx: &Ctx) -> (Acc, String, bool) {
    let len = ctx.pick(4usize, 6usize);
    let mut per_len = vec![];
    let mut total_h = 0u64;
    for l in 1..=len {
        let c = 9u64.pow(l as u32);
        per_len.push((l, total_h, c));
        total_h += c;
    }
    let cfgs = basic_configs();
    let ilen = ctx.pick(3usize, 4usize);
    let npool = intern_pool().len() as u64;
    let intern_total = npool.pow(ilen as u32);
    let groups = near_collision_groups();
    let group_total = groups.len() as u64 * ctx.pick(6, 40);
    let long_total: u64 = ctx.pick(24, 96);
    let long_ops: usize = ctx.pick(1500, 6_000);
    let seed = ctx.seed;
    let volume_total: u64 = ctx.pick(4, 16);
    let volume_n: usize = ctx.pick(3_000, 40_000);
    let acc = run_cases(ctx, total_h + intern_total + group_total + long_total + volume_total, |i, acc| {
        if i >= total_h + intern_total + group_total + long_total {
            let mut r = Rng::for_case(seed, i);
            let n = volume_n / 2 + r.below(volume_n / 2 + 1);
            run_interning_volume(n, &mut r, acc);
            acc.nontrivial += 1;
            return;
        }
        if i < total_h {
            let (l, off, _) = per_len.iter().rev().find(|(_, off, _)| *off <= i).cloned().unwrap();
            let mut code = i - off;
            let mut hist = vec![];
            for _ in 0..l {
                hist.push(OPS[(code % 9) as usize]);
                code /= 9;
            }
            let mut grew = false;
            run_history(Simple::fresh(), "default", &hist, acc, &mut grew);
            for (name, c) in &cfgs {
                run_history(c.make(), name, &hist, acc, &mut grew);
            }
            if grew {
                acc.nontrivial += 1;
            }
            if i % 3301 == 0 {
                acc.sample(Json::s(format!("history {:?} on simple + {} basic configurations", hist, cfgs.len())));
            }
        } else if i < total_h + intern_total {
            let mut code = i - total_h;
            let mut seq = vec![];
            for _ in 0..ilen {
                seq.push((code % npool) as usize);
                code /= npool;
            }
            run_interning(&seq, acc);
            acc.nontrivial += 1;
            if i % 1201 == 0 {
                let pool = intern_pool();
                acc.sample(Json::s(format!("interning sequence {:?}", seq.iter().map(|x| pool[*x].show()).collect::<Vec<_>>())));
            }
        } else if i < total_h + intern_total + group_total {
            let j = (i - total_h - intern_total) as usize;
            let g = &groups[j % groups.len()];
            let mut r = Rng::for_case(seed, i);
            // a random order with repetitions: every constant added at least once, some twice
            let mut seq: Vec<usize> = (0..g.len()).collect();
            for k in (1..seq.len()).rev() {
                let m = r.below(k + 1);
                seq.swap(k, m);
            }
            for _ in 0..g.len() {
                seq.push(r.below(g.len()));
            }
            run_interning_pool(g, &seq, acc);
            acc.nontrivial += 1;
            acc.count("near_collision_sequences");
        } else {
            let mut r = Rng::for_case(seed, i);
            let hist: Vec<Op> = (0..long_ops).map(|_| *r.pick(&OPS)).collect();
            acc.distinct.insert(fnv_str(&format!("{:?}", &hist[..40.min(hist.len())])));
            // long histories: default settings, rolling sample + periodic full sweep
            fn go<D: Hooks>(d: D, cfg: &str, hist: &[Op], acc: &mut Acc, r: &mut Rng) {
                let mut run = Runner { m: Model { instr_base: d.get_instruction_len(), jump_base: d.get_jump_table_len(), ..Default::default() }, d, cfg, step: 0, failed: false };
                for (i, op) in hist.iter().enumerate() {
                    run.step = i;
                    acc.evals += 1;
                    let shown = &hist[i.saturating_sub(12)..=i];
                    run.apply(*op, acc, shown);
                    let full = i % 97 == 0 || i + 1 == hist.len();
                    run.sweep(*op, acc, shown, full, Some(r));
                    if run.failed {
                        return;
                    }
                }
            }
            go(Simple::fresh(), "default", &hist, acc, &mut r);
            go(Basic::fresh(), "default", &hist, acc, &mut r);
            if i % 2 == 0 {
                let c = cfgs[r.below(cfgs.len())].clone();
                go(c.1.make(), &c.0, &hist, acc, &mut r);
            }
        }
    });
    let rule = format!(
        "exhaustive: every history of length 1..{} over 9 operation kinds (add number [+ the symbol its text spells + that text] / text|bytes / named symbol [+ symbol lists merged from it] / pair|list of earlier values; push instruction; push+patch jump entry; push/pop register; push/pop value; push/pop frame) = {} histories, each on SimpleGarnishData and on BasicGarnishData with initial block sizes 0,1,2 x growth +1,+2,x2(from non-zero) plus default ({} configurations), full read-back sweep of every table + structural invariant (verif hooks) after EVERY operation; Simple interning: every sequence of length {} over {} constants incl. hash-stream alias pairs (Float 1.5 / Integer -13291983 ...) = {}; near-collision interning groups (text / byte lists of 20 lengths from 1 to 4096 that agree in length and all but one position, close floats, integers, symbols) added in random orders with repetitions; interning volume: stores holding up to {} distinct constants of five kinds, each added a second time in random order; random: {} histories of {} operations (rolling + periodic full sweeps). distinct_nontrivial counts exhaustive histories in which the data table grew, interning sequences, and distinct random histories.",
        len,
        total_h,
        cfgs.len(),
        ilen,
        npool,
        intern_total,
        volume_n,
        long_total,
        long_ops
    );
    (acc, rule, false)
}

pub const ASSUMPTIONS: &[&str] = &["model: independent growable tables (plain vectors) + stacks where pop_frame discards the operands pushed after the matching push_frame", "unstructured 64-bit hash collisions of the intern cache are out of reach; only structural aliasing of the hashed byte stream is generated"];
