//! C19 Compaction and cloning preserve everything reachable (BasicGarnishData).
//!
//! (a) value graphs: random graphs with shared sub-values are built through the trait, some values
//!     pushed on the operand stack, the input-value stack and (with return addresses) the frame chain,
//!     symbol names registered, a random retention point chosen, random extra roots picked (some of
//!     them already on a stack). Everything observable is read back before and after `optimize`
//!     (once and repeatedly) and after `clone_data`, and must be unchanged.
//! (b) running programs: each generated program runs once undisturbed and then again with `optimize`
//!     injected at one step boundary (every boundary in turn) and after every step; value and step
//!     count must be the undisturbed ones.

use crate::ast::{rand_program, GenCfg};
use crate::pipe::{compile, start, step, Fail};
use crate::pool::{sym_u, tname};
use crate::props::c01::inputs;
use crate::props::c15::Hooks;
use crate::run::{run_cases, Acc, Ctx};
use crate::store::{Basic, Store};
use crate::util::{fnv_str, Json, Rng};
use crate::value::{construct, readback, Mk, V};
use garnish_lang_traits::GarnishData;

// ------------------------------------------------------------------ (a) graphs

struct Graph {
    d: Basic,
    /// (address, value) of everything built so far
    pool: Vec<(usize, V)>,
    /// data length at the moment retention was fixed (None: nothing retained)
    retained: Option<usize>,
    regs: Vec<V>,
    vals: Vec<V>,
    frames: Vec<usize>,
    symbols: Vec<(u64, String)>,
    log: Vec<String>,
}

fn leaf(r: &mut Rng) -> V {
    match r.below(12) {
        0 => V::Unit,
        1 => V::True,
        2 => V::False,
        3 => V::Int(r.range(-5, 1000) as i32),
        4 => V::Float(r.range(0, 50) as f64 / 4.0),
        5 => V::Char(*r.pick(&['a', 'é', '😀'])),
        6 => V::Byte(r.below(256) as u8),
        7 => V::Sym(sym_u(*r.pick::<&str>(&["alpha", "beta", "gamma", "k"]))),
        8 => V::str(*r.pick::<&str>(&["", "x", "héllo", "some longer text"])),
        9 => V::ByteList((0..r.below(5)).map(|i| i as u8 * 7).collect()),
        10 => V::External(r.below(9)),
        _ => V::Type(garnish_lang_traits::GarnishDataType::Number),
    }
}

impl Graph {
    fn new() -> Graph {
        Graph { d: Basic::fresh(), pool: vec![], retained: None, regs: vec![], vals: vec![], frames: vec![], symbols: vec![], log: vec![] }
    }

    fn pick(&self, r: &mut Rng) -> Option<(usize, V)> {
        if self.pool.is_empty() {
            None
        } else {
            Some(self.pool[r.below(self.pool.len())].clone())
        }
    }

    /// one random construction step; Err = the store refused (harness problem, not a verdict)
    fn grow(&mut self, r: &mut Rng) -> Result<(), String> {
        let e = |x: garnish_lang_simple_data::DataError| x.to_string();
        let k = if self.pool.len() < 2 { 0 } else { r.below(14) };
        match k {
            0 | 1 | 2 => {
                let v = leaf(r);
                let a = construct(&mut self.d, &v).map_err(e)?;
                self.log.push(format!("leaf {}", v.show()));
                self.pool.push((a, v));
            }
            3 | 4 => {
                // pair over existing values (sharing)
                let (la, lv) = self.pick(r).unwrap();
                let (ra, rv) = self.pick(r).unwrap();
                let a = self.d.add_pair((la, ra)).map_err(e)?;
                self.log.push(format!("pair @{} @{}", la, ra));
                self.pool.push((a, V::pair(lv, rv)));
            }
            5 | 6 | 7 => {
                // list over existing values, some keyed
                let n = r.below(5);
                let mut items = vec![];
                for _ in 0..n {
                    let (a, v) = self.pick(r).unwrap();
                    if r.chance(1, 3) {
                        let key = V::Sym(sym_u(*r.pick::<&str>(&["alpha", "beta", "gamma"])));
                        let ka = construct(&mut self.d, &key).map_err(e)?;
                        let pa = self.d.add_pair((ka, a)).map_err(e)?;
                        items.push((pa, V::pair(key, v)));
                    } else {
                        items.push((a, v));
                    }
                }
                let mut li = self.d.start_list(items.len()).map_err(e)?;
                for (a, _) in &items {
                    li = self.d.add_to_list(li, *a).map_err(e)?;
                }
                let a = self.d.end_list(li).map_err(e)?;
                self.log.push(format!("list of {}", items.len()));
                self.pool.push((a, V::List(items.into_iter().map(|x| x.1).collect())));
            }
            8 => {
                let (la, lv) = self.pick(r).unwrap();
                let (ra, rv) = self.pick(r).unwrap();
                let a = self.d.add_concatenation(la, ra).map_err(e)?;
                self.log.push(format!("concat @{} @{}", la, ra));
                self.pool.push((a, V::Concat(Box::new(lv), Box::new(rv))));
            }
            9 => {
                let (lo, hi) = (r.range(0, 3) as i32, r.range(0, 6) as i32);
                let v = V::Range(Box::new(V::Int(lo)), Box::new(V::Int(hi)));
                let a = construct(&mut self.d, &v).map_err(e)?;
                self.log.push("range".into());
                self.pool.push((a, v));
            }
            10 => {
                // slice of an existing list / text by a fresh range
                let cands: Vec<(usize, V)> = self.pool.iter().filter(|(_, v)| matches!(v, V::List(_) | V::CharList(_) | V::Concat(..))).cloned().collect();
                if let Some((la, lv)) = cands.get(r.below(cands.len().max(1))).cloned() {
                    let rv = V::Range(Box::new(V::Int(0)), Box::new(V::Int(r.range(0, 3) as i32)));
                    let ra = construct(&mut self.d, &rv).map_err(e)?;
                    let a = self.d.add_slice(la, ra).map_err(e)?;
                    self.log.push(format!("slice @{}", la));
                    self.pool.push((a, V::Slice(Box::new(lv), Box::new(rv))));
                }
            }
            11 => {
                let v = V::SymList(vec![crate::value::SymPart::Sym(sym_u("alpha")), crate::value::SymPart::Sym(sym_u("beta")), crate::value::SymPart::Sym(sym_u("gamma"))][..2 + r.below(2)].to_vec());
                let a = construct(&mut self.d, &v).map_err(e)?;
                self.log.push("symbol list".into());
                self.pool.push((a, v));
            }
            12 => {
                let (fa, fv) = self.pick(r).unwrap();
                let (xa, xv) = self.pick(r).unwrap();
                let a = self.d.add_partial(fa, xa).map_err(e)?;
                self.log.push(format!("partial @{} @{}", fa, xa));
                self.pool.push((a, V::Partial(Box::new(fv), Box::new(xv))));
            }
            _ => {
                let name = *r.pick::<&str>(&["first_name", "x", "zed", "héllo_wörld", "a_rather_long_symbol_name_to_store"]);
                let s = garnish_lang_simple_data::symbol_value(name);
                let a = self.d.parse_add_symbol(name).map_err(e)?;
                if !self.symbols.iter().any(|(x, _)| *x == s) {
                    self.symbols.push((s, name.to_string()));
                }
                self.log.push(format!("symbol {}", name));
                self.pool.push((a, V::Sym(s)));
            }
        }
        Ok(())
    }

    /// push random pool values on the three stacks
    fn stack_ops(&mut self, r: &mut Rng, n: usize) -> Result<(), String> {
        let e = |x: garnish_lang_simple_data::DataError| x.to_string();
        for _ in 0..n {
            let (a, v) = match self.pick(r) {
                Some(x) => x,
                None => return Ok(()),
            };
            match r.below(7) {
                0 | 1 | 2 => {
                    self.d.push_register(a).map_err(e)?;
                    self.regs.push(v);
                    self.log.push(format!("push_register @{}", a));
                }
                3 | 4 => {
                    self.d.push_value_stack(a).map_err(e)?;
                    self.vals.push(v);
                    self.log.push(format!("push_value_stack @{}", a));
                }
                5 => {
                    let ret = r.below(1000);
                    self.d.push_frame(ret).map_err(e)?;
                    self.frames.push(ret);
                    self.log.push(format!("push_frame {}", ret));
                }
                _ => {
                    if !self.regs.is_empty() && r.chance(1, 2) {
                        let _ = self.d.pop_register().map_err(e)?;
                        self.regs.pop();
                        self.log.push("pop_register".into());
                    } else if !self.vals.is_empty() {
                        let _ = self.d.pop_value_stack();
                        self.vals.pop();
                        self.log.push("pop_value_stack".into());
                    }
                }
            }
        }
        Ok(())
    }
}

/// everything observable about the store that compaction must preserve, through public getters
#[derive(PartialEq, Debug, Clone)]
struct Snapshot {
    regs: Vec<Result<V, String>>,
    vals: Vec<Result<V, String>>,
    frames: Vec<usize>,
    symbols: Vec<Option<String>>,
}

fn snapshot(g: &Graph) -> Snapshot {
    let d = &g.d;
    let n = d.get_register_len();
    Snapshot {
        regs: (0..n).map(|i| d.get_register(i).ok_or_else(|| format!("register {} of {} unreadable", i, n)).and_then(|a| readback(d, a))).collect(),
        vals: d.value_stack_entries().into_iter().map(|a| readback(d, a)).collect(),
        frames: d.frame_returns(),
        symbols: g.symbols.iter().map(|(s, _)| d.symbol_name(*s)).collect(),
    }
}

fn show_r(v: &Result<V, String>) -> String {
    match v {
        Ok(v) => v.show(),
        Err(e) => format!("<unreadable: {}>", e),
    }
}

/// compare the store with the model and with an earlier snapshot; Some((what, description))
fn compare(g: &Graph, before: &Snapshot, after: &Snapshot, op: &str) -> Option<(String, String)> {
    if before.regs.len() != after.regs.len() {
        return Some(("operand-stack-length".into(), format!("after {} the operand stack holds {} values, before {}", op, after.regs.len(), before.regs.len())));
    }
    for (i, (b, a)) in before.regs.iter().zip(after.regs.iter()).enumerate() {
        if b != a {
            let t = b.as_ref().map(|v| tname(v.type_of())).unwrap_or("?".into());
            return Some((format!("operand-stack-value|{}", t), format!("after {} operand {} reads {} but was {}", op, i, show_r(a), show_r(b))));
        }
    }
    if before.vals.len() != after.vals.len() {
        return Some(("value-stack-length".into(), format!("after {} the input-value stack holds {} values, before {}", op, after.vals.len(), before.vals.len())));
    }
    for (i, (b, a)) in before.vals.iter().zip(after.vals.iter()).enumerate() {
        if b != a {
            let t = b.as_ref().map(|v| tname(v.type_of())).unwrap_or("?".into());
            return Some((format!("value-stack-value|{}", t), format!("after {} input value {} reads {} but was {}", op, i, show_r(a), show_r(b))));
        }
    }
    if before.frames != after.frames {
        return Some(("frame-chain".into(), format!("after {} the frame chain returns to {:?} but was {:?}", op, after.frames, before.frames)));
    }
    if before.symbols != after.symbols {
        return Some(("symbol-names".into(), format!("after {} the symbol names read {:?} but were {:?}", op, after.symbols, before.symbols)));
    }
    // the model: what was pushed is what is there (catches a wrong `before` as well)
    let model_regs: Vec<Result<V, String>> = g.regs.iter().cloned().map(Ok).collect();
    if after.regs != model_regs {
        return Some(("operand-stack-vs-model".into(), format!("after {} the operand stack reads [{}] but [{}] was pushed", op, after.regs.iter().map(show_r).collect::<Vec<_>>().join(", "), g.regs.iter().map(|v| v.show()).collect::<Vec<_>>().join(", "))));
    }
    let model_vals: Vec<Result<V, String>> = g.vals.iter().cloned().map(Ok).collect();
    if after.vals != model_vals {
        return Some(("value-stack-vs-model".into(), format!("after {} the input-value stack reads [{}] but [{}] was pushed", op, after.vals.iter().map(show_r).collect::<Vec<_>>().join(", "), g.vals.iter().map(|v| v.show()).collect::<Vec<_>>().join(", "))));
    }
    let mut fr = g.frames.clone();
    fr.reverse();
    if after.frames != fr {
        return Some(("frames-vs-model".into(), format!("after {} the frame chain reads {:?} but {:?} was pushed", op, after.frames, fr)));
    }
    for (i, (_, name)) in g.symbols.iter().enumerate() {
        if after.symbols[i].as_deref() != Some(name.as_str()) {
            return Some(("symbol-name-vs-model".into(), format!("after {} symbol {:?} reads {:?}", op, name, after.symbols[i])));
        }
    }
    None
}

fn graph_case(r: &mut Rng, acc: &mut Acc) {
    let mut g = Graph::new();
    let total = 4 + r.below(40);
    let retain_at = if r.chance(1, 4) { usize::MAX } else { r.below(total) };
    let report = |acc: &mut Acc, g: &Graph, class: String, desc: String| {
        let tail: Vec<String> = g.log.iter().rev().take(12).rev().cloned().collect();
        acc.violation(class, format!("{} [history of {} operations, last: {}]", desc, g.log.len(), tail.join("; ")), Json::obj().with("history", Json::Arr(g.log.iter().map(|s| Json::s(s.clone())).collect())));
    };
    for i in 0..total {
        if i == retain_at {
            g.d.retain_all_current_data();
            g.retained = Some(g.d.get_data_len());
            g.log.push(format!("retain_all_current_data (data length {})", g.d.get_data_len()));
        }
        if let Err(e) = g.grow(r) {
            acc.count("setup_failed");
            acc.seen("setup_failures", e.chars().take(60).collect::<String>());
            return;
        }
        if r.chance(1, 3) {
            let k = 1 + r.below(3);
            if let Err(e) = g.stack_ops(r, k) {
                acc.count("setup_failed");
                acc.seen("setup_failures", e.chars().take(60).collect::<String>());
                return;
            }
        }
    }
    acc.evals += 1;
    acc.max("graph_values", g.pool.len() as u64);
    acc.max("operand_stack_depth", g.regs.len() as u64);
    acc.max("frame_depth", g.frames.len() as u64);
    let retained_prefix: Vec<(usize, V)> = match g.retained {
        Some(n) => g.pool.iter().filter(|(a, _)| *a < n).cloned().collect(),
        None => vec![],
    };
    // ---- clone_data on a few values first (it must not disturb anything)
    let before = snapshot(&g);
    if let Some((c, d)) = compare(&g, &before, &before, "construction") {
        report(acc, &g, format!("construct|{}", c), d);
        return;
    }
    for _ in 0..(1 + r.below(4)) {
        let (a, v) = match g.pick(r) {
            Some(x) => x,
            None => break,
        };
        acc.count("clone_data_calls");
        g.log.push(format!("clone_data @{}", a));
        match g.d.clone_data(a) {
            Ok(c) => {
                let got = readback(&g.d, c);
                if got != Ok(v.clone()) {
                    report(acc, &g, format!("clone|copy-differs|{}", tname(v.type_of())), format!("clone_data({}) returned {} which reads {} but the argument is {}", a, c, show_r(&got), v.show()));
                    return;
                }
                let orig = readback(&g.d, a);
                if orig != Ok(v.clone()) {
                    report(acc, &g, format!("clone|original-changed|{}", tname(v.type_of())), format!("after clone_data({}) the original reads {} but was {}", a, show_r(&orig), v.show()));
                    return;
                }
                g.pool.push((c, v));
            }
            Err(e) => {
                report(acc, &g, format!("clone|error|{}", tname(v.type_of())), format!("clone_data({}) of {} fails: {}", a, v.show(), e));
                return;
            }
        }
        let after = snapshot(&g);
        if let Some((c, d)) = compare(&g, &before, &after, "clone_data") {
            report(acc, &g, format!("clone|{}", c), d);
            return;
        }
    }
    // ---- optimize, repeatedly
    let mut roots: Vec<(usize, V)> = vec![];
    for _ in 0..r.below(5) {
        if let Some(x) = g.pick(r) {
            roots.push(x);
        }
    }
    // a root that is also on a stack
    if r.chance(1, 2) && g.d.get_register_len() > 0 {
        if let Some(a) = g.d.get_register(r.below(g.d.get_register_len())) {
            if let Ok(v) = readback(&g.d, a) {
                roots.push((a, v));
                acc.count("roots_also_on_a_stack");
            }
        }
    }
    let rounds = 1 + r.below(3);
    for round in 0..rounds {
        let before = snapshot(&g);
        let addrs: Vec<usize> = roots.iter().map(|x| x.0).collect();
        g.log.push(format!("optimize roots {:?}", addrs));
        acc.count("optimize_calls");
        let size_before = g.d.get_data_len();
        let mapped = match g.d.optimize(&addrs) {
            Ok(m) => m,
            Err(e) => {
                report(acc, &g, "optimize|error".into(), format!("optimize({:?}) in round {} fails: {}", addrs, round, e));
                return;
            }
        };
        acc.add("data_cells_before_optimize", size_before as u64);
        acc.add("data_cells_after_optimize", g.d.get_data_len() as u64);
        if let Err(e) = g.d.invariant() {
            report(acc, &g, "optimize|block-invariant".into(), format!("after optimize: {}", e));
            return;
        }
        let after = snapshot(&g);
        if let Some((c, d)) = compare(&g, &before, &after, "optimize") {
            report(acc, &g, format!("optimize|{}", c), d);
            return;
        }
        if mapped.len() != roots.len() {
            report(acc, &g, "optimize|mapping-length".into(), format!("optimize returned {} addresses for {} roots", mapped.len(), roots.len()));
            return;
        }
        for (i, (old, v)) in roots.iter().enumerate() {
            let got = readback(&g.d, mapped[i]);
            if got != Ok(v.clone()) {
                report(acc, &g, format!("optimize|root|{}", tname(v.type_of())), format!("extra root {} (was at {}) is reported at {} which reads {} but the value is {}", i, old, mapped[i], show_r(&got), v.show()));
                return;
            }
            acc.count("roots_compared");
        }
        for (a, v) in &retained_prefix {
            let got = readback(&g.d, *a);
            if got != Ok(v.clone()) {
                report(acc, &g, format!("optimize|retained-prefix|{}", tname(v.type_of())), format!("retained value at {} reads {} after optimize but is {}", a, show_r(&got), v.show()));
                return;
            }
            acc.count("retained_values_compared");
        }
        // only roots and the retained prefix survive as addressable pool values
        roots = roots.iter().enumerate().map(|(i, (_, v))| (mapped[i], v.clone())).collect();
        g.pool = retained_prefix.iter().cloned().chain(roots.iter().cloned()).collect();
        // the store keeps working: build more, push more
        for _ in 0..r.below(6) {
            if g.grow(r).is_err() {
                acc.count("setup_failed");
                return;
            }
        }
        let k = r.below(4);
        if g.stack_ops(r, k).is_err() {
            acc.count("setup_failed");
            return;
        }
        let again = snapshot(&g);
        if let Some((c, d)) = compare(&g, &again, &again, "operations after optimize") {
            report(acc, &g, format!("after-optimize|{}", c), d);
            return;
        }
    }
    if acc.cur_case % 20_011 == 0 {
        acc.sample(Json::s(format!("graph history: {}", g.log.join("; "))));
    }
    // ---- finally unwind the operand stack through the store itself
    let mut popped = vec![];
    while let Ok(Some(a)) = g.d.pop_register() {
        popped.push(readback(&g.d, a));
        if popped.len() > 10_000 {
            break;
        }
    }
    popped.reverse();
    let want: Vec<Result<V, String>> = g.regs.iter().cloned().map(Ok).collect();
    // frames interleave with operands on pop in this store: only compare when there are none
    if g.frames.is_empty() && popped != want {
        report(acc, &g, "unwind|operand-stack".into(), format!("popping the operand stack yields [{}] but [{}] was pushed", popped.iter().map(show_r).collect::<Vec<_>>().join(", "), g.regs.iter().map(|v| v.show()).collect::<Vec<_>>().join(", ")));
    }
}

// ------------------------------------------------------------------ (b) programs

#[derive(PartialEq, Debug, Clone)]
enum End {
    Value(Result<V, String>, u64),
    Err(String),
    Panic(String),
    StepLimit,
}

/// run `src` on a fresh BasicGarnishData, calling `optimize` at the step boundaries `inject` selects
fn run_with(src: &str, input: &V, inject: &dyn Fn(u64) -> bool, max_steps: u64, optimizes: &mut u64) -> Option<End> {
    let mut d = Basic::fresh();
    let c = compile(src, &mut d).ok()?;
    d.retain_all_current_data();
    let ia = construct(&mut d, input).ok()?;
    start(&mut d, *c.build.jump_index(), ia).ok()?;
    let mut n = 0u64;
    loop {
        if n >= max_steps {
            return Some(End::StepLimit);
        }
        if inject(n) {
            *optimizes += 1;
            if let Err(e) = d.optimize(&[]) {
                return Some(End::Err(format!("optimize at step boundary {}: {}", n, e)));
            }
            if let Err(e) = d.invariant() {
                return Some(End::Err(format!("block invariant after optimize at step boundary {}: {}", n, e)));
            }
        }
        match step(&mut d) {
            Ok(true) => n += 1,
            Ok(false) => {
                n += 1;
                break;
            }
            Err(Fail::Err(_, e)) => return Some(End::Err(e)),
            Err(Fail::Panic(_, m, loc)) => return Some(End::Panic(format!("{} at {}", m, loc))),
        }
    }
    let v = match d.get_current_value() {
        Some(a) => readback(&d, a),
        None => Err("no current value".into()),
    };
    Some(End::Value(v, n))
}

fn program_case(src: &str, input: &V, all_points: bool, r: &mut Rng, acc: &mut Acc) {
    let mut opt = 0u64;
    let plain = match run_with(src, input, &|_| false, 5_000, &mut opt) {
        Some(p) => p,
        None => {
            acc.count("program_not_accepted_skipped");
            return;
        }
    };
    acc.evals += 1;
    let steps = match &plain {
        End::Value(_, n) => *n,
        End::StepLimit => {
            acc.count("step_limit");
            return;
        }
        // programs that fail undisturbed are C01's / C07's business
        _ => {
            acc.count("undisturbed_run_fails_skipped");
            return;
        }
    };
    acc.max("program_steps", steps);
    let points: Vec<u64> = if all_points || steps <= 48 { (0..steps).collect() } else { (0..48).map(|_| r.below(steps as usize) as u64).collect() };
    let mut runs: Vec<(String, End)> = vec![];
    for k in points {
        let mut o = 0;
        if let Some(e) = run_with(src, input, &|n| n == k, 5_000, &mut o) {
            runs.push((format!("optimize injected before step {}", k), e));
        }
        acc.add("optimize_injections", o);
    }
    let mut o = 0;
    if let Some(e) = run_with(src, input, &|_| true, 5_000, &mut o) {
        runs.push(("optimize injected before every step".into(), e));
    }
    acc.add("optimize_injections", o);
    let mut o = 0;
    if let Some(e) = run_with(src, input, &|n| n % 3 == 2, 5_000, &mut o) {
        runs.push(("optimize injected before every third step".into(), e));
    }
    acc.add("optimize_injections", o);
    for (how, e) in runs {
        acc.evals += 1;
        acc.count("disturbed_runs_compared");
        if e != plain {
            let class = match (&plain, &e) {
                (End::Value(a, _), End::Value(b, _)) if a != b => "value",
                (End::Value(_, _), End::Value(_, _)) => "step-count",
                (_, End::Err(_)) => "error",
                (_, End::Panic(_)) => "panic",
                _ => "outcome",
            };
            let detail = match &e {
                End::Err(s) | End::Panic(s) => s.chars().take(60).collect::<String>(),
                _ => String::new(),
            };
            acc.violation(
                format!("program|{}|{}", class, detail.split(':').next().unwrap_or("").chars().filter(|c| !c.is_ascii_digit()).collect::<String>()),
                format!("{:?} with $ = {}: undisturbed run gives {:?}; with {} it gives {:?}", src, input.show(), plain, how, e),
                Json::obj().with("source", Json::s(src)).with("input", input.json()).with("injection", Json::s(how)),
            );
            return;
        }
    }
}

pub fn run(ctx: &Ctx) -> (Acc, String, bool) {
    let graphs: u64 = ctx.pick(200_000, 12_000_000);
    let programs: u64 = ctx.pick(10_000, 800_000);
    let ins = inputs();
    let seed = ctx.seed;
    let cfg = GenCfg::default();
    let fixed: Vec<&str> = vec![
        "{ $ < 20 ?> ^~ ($ + 1) |> $ } <~ 0",
        "(1 2 3) ~> { $.0 + $.1, \"ab\" $ }",
        "{ { $ + 1 } <~ $ * 2 } <~ 5, { $ } <~ (:a = 1, :b = \"text\")",
        "(:a = (1 2 3), :b = \"héllo\") ~> { a b $ }",
        "\"abc\" <> \"def\" <> (1, 2)",
    ];
    let scripts = crate::corpus::repo_scripts();
    let acc = run_cases(ctx, graphs + programs + fixed.len() as u64 + scripts.len() as u64, |i, acc| {
        let mut r = Rng::for_case(seed, i);
        if i >= graphs + programs + fixed.len() as u64 {
            // the repository's own scripts: optimize at every step boundary
            let (_, text) = &scripts[(i - graphs - programs - fixed.len() as u64) as usize];
            program_case(text.trim_end(), &V::Unit, true, &mut r, acc);
            acc.nontrivial += 1;
            acc.count("repo_scripts_run_with_optimize_everywhere");
        } else if i < graphs {
            graph_case(&mut r, acc);
            acc.distinct.insert(i);
        } else if i < graphs + programs {
            let depth = 2 + r.below(4);
            let e = rand_program(&mut r, depth, &cfg);
            let src = e.print();
            let input = r.pick(&ins).clone();
            acc.distinct.insert(fnv_str(&format!("{}|{}", src, input.show())));
            program_case(&src, &input, false, &mut r, acc);
            if i % 5_003 == 0 {
                acc.sample(Json::s(format!("program {:?} with $ = {}", src, input.show())));
            }
        } else {
            let src = fixed[(i - graphs - programs) as usize];
            for input in &ins {
                program_case(src, input, true, &mut r, acc);
            }
            acc.nontrivial += 1;
        }
    });
    let rule = format!(
        "(a) {} random value graphs on BasicGarnishData (4..43 construction steps over leaves of every kind, pairs / keyed lists / concatenations / slices / partials sharing earlier values, registered symbol names; values pushed on operand stack, input-value stack, frames; random retention point; 1..4 clone_data calls; 1..3 rounds of optimize with 0..5 extra roots, some already on a stack, followed by further construction); every register, input value, frame, symbol name, retained value and mapped root is read back and compared with before and with a shadow model; block-layout invariant after every optimize. (b) {} random programs + {} fixed ones + every script under the repository's tests/scripts: undisturbed run vs runs with optimize injected before step k (every k up to 48 steps, sampled beyond), before every step, before every third step; value and step count compared.",
        graphs, programs, fixed.len()
    );
    (acc, rule, false)
}

pub const ASSUMPTIONS: &[&str] = &[
    "protocol: the retention count is fixed with retain_all_current_data() after building (so every constant an instruction names lies in the retained prefix); values built afterwards survive only through a stack, the symbol table or an extra root",
    "values are compared structurally through the public getters (read-back), not by address; addresses are only required to be unchanged for the retained prefix and to follow the returned mapping for extra roots",
    "the host declines everything in the program runs (NoOpCompanion); programs whose undisturbed run fails are skipped here",
];
