//! C16 Lists keep their order and find every key.

use crate::mon::Mon;
use crate::pipe::{exec_one_at, Fail};
use crate::run::{run_cases, Acc, Ctx};
use crate::store::{Basic, Num, Simple, Store};
use crate::util::{fnv_str, guarded, panic_site, Json, Rng};
use crate::value::{construct, construct_shared, readback, Mk, V};
use garnish_lang_traits::{Extents, GarnishData, Instruction as I, TypeConstants};

#[derive(Clone, Copy, Debug, PartialEq)]
enum Kind {
    Number,
    Text,
    Symbol,
    Keyed,
    NonSymPair,
    Nested,
    Unit,
}
const KINDS: [Kind; 7] = [Kind::Number, Kind::Text, Kind::Symbol, Kind::Keyed, Kind::NonSymPair, Kind::Nested, Kind::Unit];

fn item(kind: Kind, pos: usize, key: u64) -> V {
    match kind {
        Kind::Number => V::Int(10 + pos as i32),
        Kind::Text => V::CharList(format!("t{}", pos)),
        Kind::Symbol => V::Sym(key ^ 0x5555),
        Kind::Keyed => V::pair(V::Sym(key), V::Int(100 + pos as i32)),
        Kind::NonSymPair => V::pair(V::Int(pos as i32), V::Int(200 + pos as i32)),
        Kind::Nested => V::List(vec![V::Int(pos as i32), V::pair(V::Sym(key), V::Int(-1))]),
        Kind::Unit => V::Unit,
    }
}

fn mix_class(items: &[V]) -> String {
    let keyed = items.iter().any(|x| matches!(x, V::Pair(a, _) if matches!(**a, V::Sym(_))));
    let nonsym = items.iter().any(|x| matches!(x, V::Pair(a, _) if !matches!(**a, V::Sym(_))));
    let unit = items.iter().any(|x| matches!(x, V::Unit));
    let other = items.iter().any(|x| !matches!(x, V::Pair(..) | V::Unit));
    let mut s = vec![];
    if keyed {
        s.push("keyed");
    }
    if nonsym {
        s.push("nonsym-pair");
    }
    if unit {
        s.push("unit");
    }
    if other {
        s.push("plain");
    }
    if s.is_empty() {
        s.push("empty");
    }
    s.join("+")
}

/// flat items of a list or of a concatenation of lists
fn flat(v: &V) -> Vec<V> {
    v.flat_items().into_iter().cloned().collect()
}

fn lookup(items: &[V], s: u64) -> Option<V> {
    // distinct keys by construction; the last match wins if a generator ever repeats one
    let mut found = None;
    for it in items {
        if let V::Pair(k, v) = it {
            if **k == V::Sym(s) {
                found = Some((**v).clone());
            }
        }
    }
    found
}

fn is_concat(v: &V) -> bool {
    matches!(v, V::Concat(..))
}

fn check_value<D: Store + Mk>(v: &V, probe_absent: &[u64], acc: &mut Acc) {
    check_value_built::<D>(v, probe_absent, false, acc)
}

/// `shared`: equal sub-values are built once and referenced from every place they occur
fn check_value_built<D: Store + Mk>(v: &V, probe_absent: &[u64], shared: bool, acc: &mut Acc) {
    let items = flat(v);
    let n = items.len();
    let mix = mix_class(&items);
    let shape = if is_concat(v) { "concat" } else { "list" };
    acc.seen("mix_classes", format!("{}:{}", shape, mix));
    let mut m: Mon<D> = Mon::fresh();
    let built = if shared { construct_shared(&mut m, v, &mut std::collections::HashMap::new()) } else { construct(&mut m, v) };
    let addr = match built {
        Ok(a) => a,
        Err(e) => {
            acc.violation(
                format!("err|construct|{}|{}:{}", D::NAME, shape, mix),
                format!("[{}] building {} failed: {}", D::NAME, v.show(), e),
                Json::obj().with("store", Json::s(D::NAME)).with("value", v.json()),
            );
            return;
        }
    };
    let payload = |what: &str| Json::obj().with("store", Json::s(D::NAME)).with("value", v.json()).with("query", Json::s(what));

    // ---------------- direct API of a concatenation: its item iterator yields the flat items in order
    if is_concat(v) {
        acc.evals += 1;
        let ext = garnish_lang_traits::Extents::new(0.into(), i32::MAX.into());
        let got = guarded(|| m.d.get_concatenation_iter(addr, ext).map(|it| it.take(n + 8).collect::<Vec<usize>>()));
        let got_vals: Result<Vec<V>, String> = match got {
            Ok(Ok(addrs)) => addrs.iter().map(|a| readback(&m.d, *a)).collect(),
            Ok(Err(e)) => Err(format!("error: {}", e)),
            Err((msg, loc)) => Err(format!("panic: {} at {}", msg, loc)),
        };
        match got_vals {
            Ok(vals) if vals == items => {}
            other => acc.violation(
                format!("wrong-value|get_concatenation_iter|{}|{}", D::NAME, mix),
                format!("[{}] get_concatenation_iter of {} yields {:?}, expected the {} flat items in order", D::NAME, v.show().chars().take(200).collect::<String>(), other.map(|x| x.iter().map(|y| y.show()).collect::<Vec<_>>()), n),
                payload("iterate"),
            ),
        }
    }
    // ---------------- direct API (lists only; concatenations have no list getters)
    if !is_concat(v) {
        acc.evals += 1;
        match guarded(|| m.d.get_list_len(addr)) {
            Ok(Ok(l)) if l == n => {}
            Ok(other) => acc.violation(
                format!("wrong-value|get_list_len|{}|{}", D::NAME, mix),
                format!("[{}] get_list_len of {} = {:?}, expected {}", D::NAME, v.show(), other.map_err(|e| e.to_string()), n),
                payload("len"),
            ),
            Err((msg, loc)) => acc.violation(format!("panic|{}|get_list_len|{}", panic_site(&loc), D::NAME), format!("[{}] get_list_len panicked: {}", D::NAME, msg), payload("len")),
        }
        // indexes inside and outside
        let idxs: Vec<i64> = (0..n as i64).chain([n as i64, n as i64 + 1, n as i64 + 7, -1, -2, i32::MAX as i64, i32::MIN as i64]).collect();
        for k in idxs {
            acc.evals += 1;
            let inside = k >= 0 && (k as usize) < n;
            let kclass = if inside {
                "inside".to_string()
            } else if k < 0 {
                "negative".to_string()
            } else {
                "past-end".to_string()
            };
            let r = guarded(|| m.d.get_list_item(addr, Num::Integer(k as i32)));
            match r {
                Err((msg, loc)) => acc.violation(
                    format!("panic|{}|get_list_item|{}|{}", panic_site(&loc), D::NAME, kclass),
                    format!("[{}] get_list_item({}, {}) panicked: {} at {}", D::NAME, v.show(), k, msg, loc),
                    payload(&format!("index {}", k)),
                ),
                Ok(Err(e)) => acc.violation(
                    format!("err|get_list_item|{}|{}", D::NAME, kclass),
                    format!("[{}] get_list_item({}, {}) is an error ({}); a list reports 'no item', not an error", D::NAME, v.show(), k, e),
                    payload(&format!("index {}", k)),
                ),
                Ok(Ok(got)) => {
                    let gv = got.map(|a| readback(&m.d, a));
                    let ok = match (&gv, inside) {
                        (Some(Ok(x)), true) => *x == items[k as usize],
                        (None, false) => true,
                        _ => false,
                    };
                    if !ok {
                        acc.violation(
                            format!("wrong-value|get_list_item|{}|{}", D::NAME, kclass),
                            format!(
                                "[{}] get_list_item({}, {}) = {:?}, expected {}",
                                D::NAME,
                                v.show(),
                                k,
                                gv.map(|x| x.map(|y| y.show())),
                                if inside { items[k as usize].show() } else { "no item".into() }
                            ),
                            payload(&format!("index {}", k)),
                        );
                    }
                }
            }
        }
        // iteration order
        acc.evals += 1;
        match guarded(|| m.d.get_list_item_iter(addr, Extents::new(Num::zero(), Num::max_value())).map(|it| it.collect::<Vec<usize>>())) {
            Ok(Ok(addrs)) => {
                let vs: Vec<Result<V, String>> = addrs.iter().map(|a| readback(&m.d, *a)).collect();
                let same = vs.len() == n && vs.iter().zip(items.iter()).all(|(a, b)| a.as_ref().ok() == Some(b));
                if !same {
                    acc.violation(
                        format!("wrong-value|get_list_item_iter|{}|{}", D::NAME, mix),
                        format!("[{}] iteration of {} yields {:?}", D::NAME, v.show(), vs.iter().map(|x| x.as_ref().map(|y| y.show())).collect::<Vec<_>>()),
                        payload("iterate"),
                    );
                }
            }
            Ok(Err(e)) => acc.violation(format!("err|get_list_item_iter|{}|{}", D::NAME, mix), format!("[{}] get_list_item_iter failed: {}", D::NAME, e), payload("iterate")),
            Err((msg, loc)) => acc.violation(format!("panic|{}|get_list_item_iter|{}", panic_site(&loc), D::NAME), format!("[{}] get_list_item_iter panicked: {}", D::NAME, msg), payload("iterate")),
        }
        // keyed lookup, present and absent keys
        let mut keys: Vec<(u64, bool)> = items
            .iter()
            .filter_map(|x| match x {
                V::Pair(k, _) => match **k {
                    V::Sym(s) => Some((s, true)),
                    _ => None,
                },
                _ => None,
            })
            .collect();
        for s in probe_absent {
            if lookup(&items, *s).is_none() {
                keys.push((*s, false));
            }
        }
        for (s, present) in keys {
            acc.evals += 1;
            let pc = if present { "present" } else { "absent" };
            acc.count(if present { "lookups_present" } else { "lookups_absent" });
            let want = lookup(&items, s);
            match guarded(|| m.d.get_list_item_with_symbol(addr, s)) {
                Err((msg, loc)) => acc.violation(
                    format!("panic|{}|get_list_item_with_symbol|{}|{}:{}", panic_site(&loc), D::NAME, mix, pc),
                    format!("[{}] get_list_item_with_symbol({}, {:x}) panicked: {} at {}", D::NAME, v.show(), s, msg, loc),
                    payload(&format!("key {:x}", s)),
                ),
                Ok(Err(e)) => acc.violation(
                    format!("err|get_list_item_with_symbol|{}|{}:{}", D::NAME, mix, pc),
                    format!("[{}] get_list_item_with_symbol({}, {:x}) is an error: {} (expected {})", D::NAME, v.show(), s, e, want.map(|x| x.show()).unwrap_or("absent".into())),
                    payload(&format!("key {:x}", s)),
                ),
                Ok(Ok(got)) => {
                    let gv = got.map(|a| readback(&m.d, a));
                    let ok = match (&gv, &want) {
                        (Some(Ok(x)), Some(w)) => x == w,
                        (None, None) => true,
                        _ => false,
                    };
                    if !ok {
                        acc.violation(
                            format!("wrong-value|get_list_item_with_symbol|{}|{}:{}", D::NAME, mix, pc),
                            format!(
                                "[{}] get_list_item_with_symbol({}, {:x}) = {:?}, expected {}",
                                D::NAME,
                                v.show(),
                                s,
                                gv.map(|x| x.map(|y| y.show())),
                                want.map(|x| x.show()).unwrap_or("absent".into())
                            ),
                            payload(&format!("key {:x}", s)),
                        );
                    }
                }
            }
        }
    }

    // ---------------- through instructions (lists and concatenations)
    let mut queries: Vec<(V, V, String)> = vec![];
    for k in (0..n as i64).chain([n as i64, n as i64 + 3, -1]) {
        let inside = k >= 0 && (k as usize) < n;
        let want = if inside { items[k as usize].clone() } else { V::Unit };
        let kc = if inside { "inside" } else if k < 0 { "negative" } else { "past-end" };
        queries.push((V::Int(k as i32), want, format!("index:{}", kc)));
    }
    for it in &items {
        if let V::Pair(k, val) = it {
            if let V::Sym(_) = **k {
                queries.push(((**k).clone(), (**val).clone(), "key:present".into()));
            }
        }
    }
    for s in probe_absent {
        if lookup(&items, *s).is_none() {
            queries.push((V::Sym(*s), V::Unit, "key:absent".into()));
        }
    }
    // an operand of some enclosing operation is pending underneath while the queries run: it has to be there, unchanged,
    // after each of them (a walk that borrows the operand stack must stop at its own floor)
    let sentinel = match construct(&mut m, &V::Int(424_242)) {
        Ok(a) => a,
        Err(_) => return,
    };
    if m.push_register(sentinel).is_err() {
        return;
    }
    let sentinel_depth = m.depth();
    macro_rules! sentinel_intact {
        ($what:expr, $sig:expr) => {
            if m.depth() != sentinel_depth || m.regs.last() != Some(&sentinel) || m.get_register(m.get_register_len().saturating_sub(1)) != Some(sentinel) {
                acc.violation(
                    format!("pending-operand-disturbed|{}", $sig),
                    format!("[{}] {} on {}: the operand pending underneath is gone or changed (operand depth {} instead of {})", D::NAME, $what, v.show().chars().take(200).collect::<String>(), m.depth(), sentinel_depth),
                    payload($what),
                );
                return;
            }
        };
    }
    // length through the instruction, and the items in order through a cast to a list (both walk the whole value)
    {
        let list_type = match construct(&mut m, &V::List(vec![])) {
            Ok(a) => a,
            Err(_) => return,
        };
        for (ins, operands, want, qc) in [
            (I::AccessLengthInternal, vec![addr], V::Int(n as i32), "length"),
            (I::ApplyType, vec![addr, list_type], V::List(items.clone()), "cast-to-list"),
        ] {
            acc.evals += 1;
            let depth_before = m.depth();
            let one = match exec_one_at(&mut m, ins, None, &operands) {
                Ok(o) => o,
                Err(e) => {
                    acc.inconclusive.push(format!("C16 setup: {}", e));
                    continue;
                }
            };
            let sigbase = format!("{:?}|{}|{}:{}|{}", ins, D::NAME, shape, mix, qc);
            match (&one.outcome, &one.top) {
                (Err(Fail::Panic(_, msg, loc)), _) => acc.violation(
                    format!("panic|{}|{}", panic_site(loc), sigbase),
                    format!("[{}] {:?} of {} panicked: {} at {}", D::NAME, ins, v.show(), msg, loc),
                    payload(qc),
                ),
                (Err(Fail::Err(_, e)), _) => acc.violation(format!("err|{}", sigbase), format!("[{}] {:?} of {} failed: {}", D::NAME, ins, v.show(), e), payload(qc)),
                (Ok(_), Some(Ok(got))) => {
                    if *got != want {
                        acc.violation(
                            format!("wrong-value|{}", sigbase),
                            format!("[{}] {:?} of {} = {}, expected {}", D::NAME, ins, v.show(), got.show().chars().take(200).collect::<String>(), want.show().chars().take(200).collect::<String>()),
                            payload(qc),
                        );
                    }
                    if m.depth() != depth_before + 1 {
                        acc.violation(format!("result-count|{}", sigbase), format!("[{}] {:?} of {} left {} operands (exactly one result expected)", D::NAME, ins, v.show(), m.depth() as i64 - depth_before as i64), payload(qc));
                    }
                }
                (Ok(_), other) => acc.violation(format!("unreadable|{}", sigbase), format!("[{}] {:?} of {}: result {:?}", D::NAME, ins, v.show(), other), payload(qc)),
            }
            while m.depth() > depth_before {
                if m.pop_register().is_err() {
                    break;
                }
            }
            sentinel_intact!(qc, sigbase);
        }
    }
    for (q, want, qc) in queries {
        for ins in [I::Access, I::Apply] {
            if ins == I::Apply && is_concat(v) {
                continue; // apply on a concatenation is not a defined lookup
            }
            acc.evals += 1;
            let qa = match construct(&mut m, &q) {
                Ok(a) => a,
                Err(_) => continue,
            };
            let depth_before = m.depth();
            let one = match exec_one_at(&mut m, ins, None, &[addr, qa]) {
                Ok(o) => o,
                Err(e) => {
                    acc.inconclusive.push(format!("C16 setup: {}", e));
                    continue;
                }
            };
            let sigbase = format!("{:?}|{}|{}:{}|{}", ins, D::NAME, shape, mix, qc);
            match (&one.outcome, &one.top) {
                (Err(Fail::Panic(_, msg, loc)), _) => acc.violation(
                    format!("panic|{}|{}", panic_site(loc), sigbase),
                    format!("[{}] {} {:?} {} panicked: {} at {}", D::NAME, v.show(), ins, q.show(), msg, loc),
                    payload(&format!("{:?} {}", ins, q.show())),
                ),
                (Err(Fail::Err(_, e)), _) => {
                    acc.violation(
                        format!("err|{}", sigbase),
                        format!("[{}] {} {:?} {} failed: {} (expected {})", D::NAME, v.show(), ins, q.show(), e, want.show()),
                        payload(&format!("{:?} {}", ins, q.show())),
                    );
                    // the failed step may have left operands; drop them so later queries start clean
                    while m.depth() > depth_before {
                        if m.pop_register().is_err() {
                            break;
                        }
                    }
                }
                (Ok(_), Some(Ok(got))) => {
                    if *got != want {
                        acc.violation(
                            format!("wrong-value|{}", sigbase),
                            format!("[{}] {} {:?} {} = {}, expected {}", D::NAME, v.show(), ins, q.show(), got.show(), want.show()),
                            payload(&format!("{:?} {}", ins, q.show())),
                        );
                    }
                    // the two operands are replaced by exactly one result, whatever the query walked through
                    if m.depth() != depth_before + 1 {
                        acc.violation(
                            format!("result-count|{}", sigbase),
                            format!("[{}] {} {:?} {} left {} operands where the two operands stood (exactly one result expected)", D::NAME, v.show(), ins, q.show(), m.depth() as i64 - depth_before as i64),
                            payload(&format!("{:?} {}", ins, q.show())),
                        );
                    }
                    while m.depth() > depth_before {
                        if m.pop_register().is_err() {
                            break;
                        }
                    }
                    sentinel_intact!(&format!("{:?} {}", ins, q.show()), sigbase);
                }
                (Ok(_), other) => acc.violation(
                    format!("unreadable|{}", sigbase),
                    format!("[{}] {} {:?} {}: result {:?}", D::NAME, v.show(), ins, q.show(), other),
                    payload(&format!("{:?} {}", ins, q.show())),
                ),
            }
        }
    }
}

fn adversarial_keys(r: &mut Rng, n: usize) -> Vec<u64> {
    let n64 = n.max(1) as u64;
    let mut keys: Vec<u64> = match r.below(7) {
        0 => (0..n as u64).map(|i| 5u64.wrapping_add(i.wrapping_mul(n64))).collect(),          // all congruent mod n
        1 => (0..n as u64).collect(),                                 // 0,1,2.. (small = addresses)
        2 => (0..n as u64).map(|i| u64::MAX - i).collect(),          // top of the range
        3 => (0..n as u64).map(|i| i.wrapping_mul(0x9E37_79B9_7F4A_7C15)).collect(),
        4 => (0..n as u64).map(|i| (i + 1).wrapping_mul(n64)).collect(),         // all multiples of n
        5 => (0..n as u64).map(|i| 1u64 << (i % 64)).chain(std::iter::empty()).collect(),
        _ => (0..n).map(|_| r.next()).collect(),
    };
    keys.sort();
    keys.dedup();
    match r.below(3) {
        0 => {}
        1 => keys.reverse(),
        _ => {
            for i in (1..keys.len()).rev() {
                let j = r.below(i + 1);
                keys.swap(i, j);
            }
        }
    }
    keys
}

fn random_list(r: &mut Rng, max: usize, keys: &mut Vec<u64>) -> V {
    let n = r.below(max + 1);
    let unkeyed_bias = r.below(4); // 0: all keyed
    let mut items = vec![];
    for pos in 0..n {
        let kind = if unkeyed_bias == 0 || r.chance(2, 3) { Kind::Keyed } else { *r.pick(&KINDS) };
        let key = if kind == Kind::Keyed { keys.pop().unwrap_or(0xABCD_0000 + pos as u64) } else { 0x7777_0000 + pos as u64 };
        items.push(item(kind, pos, key));
    }
    V::List(items)
}

pub fn run(ctx: &Ctx) -> (Acc, String, bool) {
    let max_len = ctx.pick(3usize, 4usize);
    // exhaustive lists: index = (length, kind digits)
    let mut counts = vec![];
    let mut total_ex = 0u64;
    for l in 0..=max_len {
        let c = (KINDS.len() as u64).pow(l as u32);
        counts.push((l, total_ex, c));
        total_ex += c;
    }
    let random_total: u64 = ctx.pick(40_000, 3_000_000);
    let seed = ctx.seed;
    let absent = [0u64, 1, u64::MAX, 0x1234_5678, 3];
    let acc = run_cases(ctx, total_ex + random_total, |i, acc| {
        if i < total_ex {
            let (l, off, _) = counts.iter().rev().find(|(_, off, _)| *off <= i).cloned().unwrap();
            let mut code = i - off;
            let mut items = vec![];
            for pos in 0..l {
                let kind = KINDS[(code % KINDS.len() as u64) as usize];
                code /= KINDS.len() as u64;
                items.push(item(kind, pos, 0xA000 + 17 * pos as u64));
            }
            let v = V::List(items);
            check_value::<Simple>(&v, &absent, acc);
            check_value::<Basic>(&v, &absent, acc);
            acc.nontrivial += 1;
            if i % 397 == 0 {
                acc.sample(Json::s(format!("exhaustive list {}", v.show())));
            }
        } else {
            let mut r = Rng::for_case(seed, i);
            let total_keys = 2 + r.below(ctx.pick(24, 70));
            let mut keys = adversarial_keys(&mut r, total_keys);
            let mut absent_probe: Vec<u64> = absent.to_vec();
            absent_probe.push(r.next());
            if let Some(k) = keys.first() {
                absent_probe.push(k.wrapping_add(1));
                absent_probe.push(k.wrapping_sub(1));
            }
            let v = if r.chance(1, 3) {
                let parts = 2 + r.below(2);
                let mut cur = random_list(&mut r, 8, &mut keys);
                for _ in 1..parts {
                    let nxt = random_list(&mut r, 8, &mut keys);
                    cur = if r.chance(1, 2) { V::Concat(Box::new(cur), Box::new(nxt)) } else { V::Concat(Box::new(nxt), Box::new(cur)) };
                }
                cur
            } else {
                random_list(&mut r, ctx.pick(24, 64), &mut keys)
            };
            check_value::<Simple>(&v, &absent_probe, acc);
            check_value::<Basic>(&v, &absent_probe, acc);
            acc.distinct.insert(fnv_str(&v.show()));
            if i % 5 == 0 {
                // one list (or concatenation) referenced twice or three times from a concatenation, built once:
                // unkeyed items only, so that the keys of the whole stay distinct
                let n = 1 + r.below(4);
                let part = V::List((0..n).map(|pos| item(*r.pick(&[Kind::Number, Kind::Text, Kind::NonSymPair, Kind::Nested, Kind::Unit]), pos, 0x9000 + pos as u64)).collect());
                let part = if r.chance(1, 3) { V::Concat(Box::new(part.clone()), Box::new(V::List(vec![V::Int(77)]))) } else { part };
                let b = |x: &V| Box::new(x.clone());
                let sv = match r.below(3) {
                    0 => V::Concat(b(&part), b(&part)),
                    1 => V::Concat(Box::new(V::Concat(b(&part), b(&v))), b(&part)),
                    _ => V::Concat(b(&part), Box::new(V::Concat(b(&part), b(&part)))),
                };
                acc.count("shared_part_concatenations");
                check_value_built::<Simple>(&sv, &absent_probe, true, acc);
                check_value_built::<Basic>(&sv, &absent_probe, true, acc);
            }
            if i % 1009 == 0 {
                acc.sample(Json::s(format!("random {}", v.show().chars().take(300).collect::<String>())));
            }
        }
    });
    let rule = format!(
        "exhaustive: every list of length <= {} over 7 item kinds (number, text, symbol, pair keyed by a distinct symbol, pair keyed by a non-symbol, nested list, unit) = {} lists; random: {} lists (<= {} items) and concatenations of 2-3 lists with adversarial distinct symbol keys, every fifth case also a concatenation that references one part (built once) two or three times (congruent mod n, 0.., u64::MAX.., multiples of n, powers of two; sorted / reversed / shuffled). Each value on both stores: get_list_len, get_list_item inside and outside (n, n+1, n+7, -1, -2, i32 limits), iteration order, get_list_item_with_symbol for every present key and 5-8 absent keys, and the same queries through the Access and Apply instructions (each must leave exactly one result), plus the length through AccessLengthInternal and the item sequence through a cast to a list.",
        max_len, total_ex, random_total, ctx.pick(24, 64)
    );
    (acc, rule, false)
}

pub const ASSUMPTIONS: &[&str] = &["symbol keys are distinct within a value (the property quantifies over sets of distinct symbols)", "apply on a concatenation is not treated as a lookup (not a defined combination); fractional indexes are outside the property"];
