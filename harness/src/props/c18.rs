//! C18 Layout that carries no meaning does not change the result.
//!
//! Metamorphic monitor: a generated program is run as printed and again after each meaning-free
//! rewrite; the observed parse tree (up to trivia, added groups and added side-effect blocks), the
//! final value and the host call sequence must not move. Where a rewrite may be applied is decided
//! without the code under test: text rewrites by the reference lexer / reference parser (same
//! significant tokens, same reference tree), structural rewrites on the AST.

use crate::ast::{all_of_size, rand_program, well_formed, Bin, GenCfg, Un, E};
use crate::mon::{Host, HostMode};
use crate::pipe::{lex_g, parse_g, Fail};
use crate::prog::{printer_selfcheck, real, resolve_log, stage_name, RealOutcome, RunCfg};
use crate::props::c01::{children, has_reapply, host_resolves, inputs};
use crate::reflex::{reflex, RLex, RTok};
use crate::refparse::{actual_tree, refparse, Tree};
use crate::run::{run_cases, Acc, Ctx};
use crate::store::{Basic, Simple, Store};
use crate::util::{fnv_str, Json, Rng};
use crate::value::{Mk, V};
use garnish_lang_compiler::lex::TokenType as T;
use std::collections::HashMap;

// ------------------------------------------------------------------ observations

#[derive(Clone, PartialEq, Debug)]
enum Outcome {
    Value(String),
    Rejected(&'static str),
    RunError,
    Panic(String),
    StepLimit,
    Setup,
}

#[derive(Clone)]
struct Obs {
    tree: Option<Tree>,
    out: [Outcome; 2],
    logs: [Vec<u64>; 2],
    detail: [String; 2],
    /// executed steps per store
    steps: [u64; 2],
}

fn run_on<D: Store + Mk>(src: &str, input: &V, resolves: &HashMap<u64, V>) -> (Outcome, Vec<u64>, String, u64) {
    let cfg = RunCfg { max_steps: 20_000, host: Host { mode: HostMode::Script, resolve: resolves.clone(), apply_accept: false, defer_accept: false } };
    let run = real::<D>(src, input, &cfg);
    let log = resolve_log(&run.m);
    let n = run.steps;
    let (a, b, c) = match &run.outcome {
        RealOutcome::Value(Ok(v)) => (Outcome::Value(v.show()), log, v.show()),
        RealOutcome::Value(Err(e)) => (Outcome::Value(format!("<unreadable {}>", e)), log, e.clone()),
        RealOutcome::CompileFail(Fail::Panic(st, m, loc)) | RealOutcome::RunFail(Fail::Panic(st, m, loc)) => (Outcome::Panic(format!("{} {}", stage_name(st), loc)), log, m.clone()),
        RealOutcome::CompileFail(Fail::Err(st, e)) => (Outcome::Rejected(stage_name(st)), log, e.clone()),
        RealOutcome::RunFail(Fail::Err(_, e)) => (Outcome::RunError, log, e.clone()),
        RealOutcome::StepLimit => (Outcome::StepLimit, log, String::new()),
        RealOutcome::SetupFail(s) => (Outcome::Setup, log, s.clone()),
    };
    (a, b, c, n)
}

fn observe(src: &str, input: &V, resolves: &HashMap<u64, V>) -> Obs {
    let tree = lex_g(src).ok().and_then(|t| parse_g(&t).ok()).and_then(|p| actual_tree(&p).ok());
    let (o1, l1, d1, n1) = run_on::<Simple>(src, input, resolves);
    let (o2, l2, d2, n2) = run_on::<Basic>(src, input, resolves);
    Obs { tree, out: [o1, o2], logs: [l1, l2], detail: [d1, d2], steps: [n1, n2] }
}

pub fn strip_effects(t: &Tree) -> Tree {
    match t {
        Tree::Leaf(..) => t.clone(),
        // a block written after a value hangs below that value node
        Tree::Un(d, x, a) if d != "SideEffect" && matches!(&**a, Tree::Un(e, ..) if e == "SideEffect") => Tree::Leaf(d.clone(), x.clone()),
        Tree::Un(d, x, a) => Tree::Un(d.clone(), x.clone(), Box::new(strip_effects(a))),
        Tree::Bin(d, _, l, _) if d == "SideEffect" => strip_effects(l),
        // a value with a block written before it (left child only), or with a block on each side
        Tree::Bin(d, x, l, None) if matches!(&**l, Tree::Un(e, ..) if e == "SideEffect") => Tree::Leaf(d.clone(), x.clone()),
        Tree::Bin(d, x, l, Some(r)) if matches!(&**l, Tree::Un(e, ..) if e == "SideEffect") && matches!(&**r, Tree::Un(e, ..) if e == "SideEffect") => Tree::Leaf(d.clone(), x.clone()),
        Tree::Bin(d, x, l, r) => Tree::Bin(d.clone(), x.clone(), Box::new(strip_effects(l)), r.as_ref().map(|r| Box::new(strip_effects(r)))),
        Tree::Group(d, x) => Tree::Group(d.clone(), x.as_ref().map(|x| Box::new(strip_effects(x)))),
    }
}

/// one shape for a block written after a value: `v [b]` hangs the block below the value node,
/// `(v) [b]` puts it inside the group; both become SideEffect(v, b) beside / around the group
pub fn norm_effects(t: &Tree) -> Tree {
    match t {
        Tree::Leaf(..) => t.clone(),
        Tree::Un(d, x, a) if d != "SideEffect" && matches!(&**a, Tree::Un(e, ..) if e == "SideEffect") => match &**a {
            Tree::Un(_, _, body) => Tree::Bin("SideEffect".into(), "[".into(), Box::new(Tree::Leaf(d.clone(), x.clone())), Some(Box::new(norm_effects(body)))),
            _ => t.clone(),
        },
        Tree::Un(d, x, a) => Tree::Un(d.clone(), x.clone(), Box::new(norm_effects(a))),
        Tree::Bin(d, x, l, r) => Tree::Bin(d.clone(), x.clone(), Box::new(norm_effects(l)), r.as_ref().map(|r| Box::new(norm_effects(r)))),
        Tree::Group(d, Some(inner)) if d == "Group" => match &**inner {
            Tree::Bin(e, x, l, r) if e == "SideEffect" => {
                Tree::Bin(e.clone(), x.clone(), Box::new(Tree::Group(d.clone(), Some(Box::new(norm_effects(l))))), r.as_ref().map(|r| Box::new(norm_effects(r))))
            }
            other => Tree::Group(d.clone(), Some(Box::new(norm_effects(other)))),
        },
        Tree::Group(d, x) => Tree::Group(d.clone(), x.as_ref().map(|x| Box::new(norm_effects(x)))),
    }
}

#[derive(Clone, Copy, PartialEq, Debug)]
enum TreeRel {
    /// text-level rewrite: identical tree
    Same,
    /// parentheses added: equal after removing plain groups
    ModGroups,
    /// side-effect block added or removed: equal after removing postfix side-effect blocks and groups
    ModEffects,
}

// ------------------------------------------------------------------ text rewrites

fn significant(toks: &[RTok]) -> Vec<(T, String)> {
    toks.iter()
        .filter(|t| !matches!(t.ty, T::Whitespace | T::Annotation | T::LineAnnotation))
        .map(|t| (t.ty, if t.ty == T::Subexpression { String::new() } else { t.text.clone() }))
        .collect()
}

/// per boundary before each significant token (and after the last): (holds a blank run, holds an annotation)
fn gaps(toks: &[RTok]) -> Vec<(bool, bool)> {
    let mut out = vec![];
    let mut cur = (false, false);
    for t in toks {
        match t.ty {
            T::Whitespace => cur.0 = true,
            T::Annotation | T::LineAnnotation => cur.1 = true,
            _ => {
                out.push(cur);
                cur = (false, false);
            }
        }
    }
    out.push(cur);
    out
}

fn ref_tree_of(src: &str) -> Option<Tree> {
    let toks = lex_g(src).ok()?;
    refparse(&toks)
}

struct TextRewrite {
    kind: &'static str,
    text: String,
    /// must be confirmed by the reference lexer + parser before it counts as meaning-free
    gated: bool,
}

fn splice(s: &[char], from: usize, to: usize, with: &str) -> String {
    let mut out: String = s[..from].iter().collect();
    out.push_str(with);
    out.extend(s[to..].iter());
    out
}

fn is_blank_only(t: &RTok) -> bool {
    t.ty == T::Whitespace && t.text.chars().all(|c| c == ' ' || c == '\t')
}

/// every single application of every text-level rewrite
fn text_rewrites(src: &str, toks: &[RTok]) -> Vec<TextRewrite> {
    let s: Vec<char> = src.chars().collect();
    let mut out = vec![];
    let len = |t: &RTok| t.text.chars().count();
    for (i, t) in toks.iter().enumerate() {
        let end = t.at + len(t);
        if is_blank_only(t) {
            for (k, w) in [("widen-space", " "), ("widen-tab", "\t"), ("widen-many", "   \t ")] {
                out.push(TextRewrite { kind: k, text: splice(&s, end, end, w), gated: false });
            }
            out.push(TextRewrite { kind: "annotation-in-gap", text: splice(&s, t.at, end, " @note "), gated: false });
            out.push(TextRewrite { kind: "comment-line-in-gap", text: splice(&s, t.at, end, " @@ remark\n"), gated: true });
            out.push(TextRewrite { kind: "remove-space", text: splice(&s, t.at, end, ""), gated: true });
            out.push(TextRewrite { kind: "space-to-tab", text: splice(&s, t.at, end, "\t"), gated: false });
        } else if t.ty == T::Whitespace || t.ty == T::Subexpression {
            // a gap holding line breaks: trailing white space on the line before it, a comment line after it
            let prev_is_token = i > 0 && !matches!(toks[i - 1].ty, T::Whitespace | T::Subexpression | T::LineAnnotation);
            if prev_is_token && s[t.at] == '\n' {
                out.push(TextRewrite { kind: "trailing-space", text: splice(&s, t.at, t.at, "  "), gated: false });
                out.push(TextRewrite { kind: "trailing-tab", text: splice(&s, t.at, t.at, "\t"), gated: false });
            }
            if s[end - 1] == '\n' {
                out.push(TextRewrite { kind: "comment-line-between", text: splice(&s, end, end, "@@ remark\n"), gated: true });
            }
            // blanks on the empty line of a blank-line separator (the run still holds its two line breaks)
            if t.ty == T::Subexpression {
                if let Some(first_nl) = (t.at..end).find(|i| s[*i] == '\n') {
                    for (k, w) in [("blank-line-gets-space", " "), ("blank-line-gets-tab", "\t"), ("blank-line-gets-blanks", " \t ")] {
                        out.push(TextRewrite { kind: k, text: splice(&s, first_nl + 1, first_nl + 1, w), gated: false });
                    }
                }
            }
        } else {
            // between two adjacent tokens with nothing in between
            if i + 1 < toks.len() && !matches!(toks[i + 1].ty, T::Whitespace | T::Subexpression) && !matches!(t.ty, T::LineAnnotation) {
                out.push(TextRewrite { kind: "insert-space", text: splice(&s, end, end, " "), gated: true });
                out.push(TextRewrite { kind: "insert-annotation", text: splice(&s, end, end, " @note "), gated: true });
            }
        }
    }
    if let Some(last) = toks.last() {
        if !matches!(last.ty, T::Whitespace | T::Subexpression | T::LineAnnotation) {
            out.push(TextRewrite { kind: "trailing-space-at-end", text: format!("{}  ", src), gated: false });
            out.push(TextRewrite { kind: "trailing-newline-at-end", text: format!("{} \n", src), gated: false });
        }
    }
    if let Some(first) = toks.first() {
        if !matches!(first.ty, T::Whitespace | T::Subexpression) {
            out.push(TextRewrite { kind: "leading-comment-line", text: format!("@@ remark\n{}", src), gated: true });
            out.push(TextRewrite { kind: "leading-space", text: format!("  {}", src), gated: false });
        }
    }
    out
}

/// an effect-free block written directly before a plain operand: after a binary operator or a comma and the
/// blank that follows it (`5 + 3` -> `5 + [0] 3`); the block hangs on the operand's left and runs before it
fn block_before_rewrites(src: &str, toks: &[RTok]) -> Vec<TextRewrite> {
    let s: Vec<char> = src.chars().collect();
    let mut out = vec![];
    let operator = |t: &RTok| {
        matches!(
            t.ty,
            T::PlusSign | T::Subtraction | T::MultiplicationSign | T::Division | T::IntegerDivision | T::Remainder | T::ExponentialSign | T::BitwiseAnd | T::BitwiseOr | T::BitwiseXor
                | T::BitwiseLeftShift | T::BitwiseRightShift | T::LessThan | T::LessThanOrEqual | T::GreaterThan | T::GreaterThanOrEqual | T::Equality | T::Inequality | T::Pair | T::Comma | T::Concatenation
        )
    };
    let plain_operand = |t: &RTok| matches!(t.ty, T::Number | T::CharList | T::Identifier | T::True | T::False | T::UnitLiteral | T::Symbol | T::Value);
    // ... and as the first thing inside a group or an expression literal that is not the program's first token
    for i in 1..toks.len().saturating_sub(1) {
        if matches!(toks[i].ty, T::StartGroup | T::StartExpression) {
            let k = if is_blank_only(&toks[i + 1]) { i + 2 } else { i + 1 };
            if k < toks.len() && plain_operand(&toks[k]) {
                let at = toks[k].at;
                out.push(TextRewrite { kind: "block-first-in-group", text: splice(&s, at, at, "[0] "), gated: false });
            }
        }
    }
    for i in 0..toks.len().saturating_sub(2) {
        if operator(&toks[i]) && is_blank_only(&toks[i + 1]) && plain_operand(&toks[i + 2]) {
            // a float operand right after `]` would be lexed differently: keep to operands that cannot start with a period
            let at = toks[i + 2].at;
            for body in ["[0] ", "[1 + 2] "] {
                out.push(TextRewrite { kind: "block-before-operand", text: splice(&s, at, at, body), gated: false });
            }
        }
    }
    out
}

/// is the rewritten text, according to the reference lexer and reference parser only, the same program?
fn admissible(orig_toks: &[RTok], orig_sig: &[(T, String)], orig_ref: &Option<Tree>, rw: &TextRewrite) -> bool {
    let toks = match reflex(&rw.text) {
        RLex::Tokens(t) => t,
        _ => return false,
    };
    if significant(&toks) != orig_sig {
        return false;
    }
    // a blank run may only go away where nothing else stands in the gap: whether an annotation on
    // its own separates two operands is not something the property speaks about
    let (og, ng) = (gaps(orig_toks), gaps(&toks));
    if og.len() != ng.len() || og.iter().zip(ng.iter()).any(|(o, n)| o.0 && !n.0 && n.1) {
        return false;
    }
    if !rw.gated {
        return true;
    }
    match (orig_ref, ref_tree_of(&rw.text)) {
        (Some(a), Some(b)) => *a == b,
        _ => false,
    }
}

// ------------------------------------------------------------------ structural rewrites

/// number of sub-expression positions, in a fixed traversal order
fn positions(e: &E) -> usize {
    1 + match e {
        E::Un(_, x) | E::Group(x) | E::Nested(x) | E::Reapply(x) => positions(x),
        E::Bin(_, a, b) | E::Effect(a, b) => positions(a) + positions(b),
        E::List(xs) | E::Comma(xs, _) | E::Seq(xs, _) => xs.iter().map(positions).sum(),
        E::Cond(arms, els) => arms.iter().map(|(_, c, a)| positions(c) + positions(a)).sum::<usize>() + els.as_ref().map(|x| positions(x)).unwrap_or(0),
        _ => 0,
    }
}

/// rebuild `e` with the node at position `k` replaced by `f(node)`; None when `f` declines
fn rewrite_at(e: &E, k: &mut usize, f: &dyn Fn(&E) -> Option<E>) -> Option<E> {
    if *k == 0 {
        *k = usize::MAX;
        return f(e);
    }
    *k -= 1;
    let go = |x: &E, k: &mut usize| -> Option<Option<E>> {
        if *k == usize::MAX {
            return Some(None);
        }
        let n = positions(x);
        if *k < n {
            let r = rewrite_at(x, k, f);
            *k = usize::MAX;
            Some(Some(r?))
        } else {
            *k -= n;
            Some(None)
        }
    };
    macro_rules! sub {
        ($x:expr) => {
            match go($x, k) {
                Some(Some(n)) => n,
                Some(None) => (**$x).clone(),
                None => return None,
            }
        };
    }
    macro_rules! subv {
        ($x:expr) => {
            match go($x, k) {
                Some(Some(n)) => n,
                Some(None) => $x.clone(),
                None => return None,
            }
        };
    }
    Some(match e {
        E::Un(u, x) => E::Un(*u, sub!(x).b()),
        E::Group(x) => E::Group(sub!(x).b()),
        E::Nested(x) => E::Nested(sub!(x).b()),
        E::Reapply(x) => E::Reapply(sub!(x).b()),
        E::Bin(o, a, b) => {
            let na = sub!(a);
            let nb = sub!(b);
            E::Bin(*o, na.b(), nb.b())
        }
        E::Effect(a, b) => {
            let na = sub!(a);
            let nb = sub!(b);
            E::Effect(na.b(), nb.b())
        }
        E::List(xs) => E::List(xs.iter().map(|x| Some(subv!(x))).collect::<Option<Vec<_>>>()?),
        E::Comma(xs, t) => E::Comma(xs.iter().map(|x| Some(subv!(x))).collect::<Option<Vec<_>>>()?, *t),
        E::Seq(xs, t) => E::Seq(xs.iter().map(|x| Some(subv!(x))).collect::<Option<Vec<_>>>()?, *t),
        E::Cond(arms, els) => {
            let mut na = vec![];
            for (neg, c, a) in arms {
                let nc = subv!(c);
                let nb = subv!(a);
                na.push((*neg, nc, nb));
            }
            let ne = match els {
                Some(x) => Some(sub!(x).b()),
                None => None,
            };
            E::Cond(na, ne)
        }
        other => other.clone(),
    })
}

fn effect_free(e: &E) -> bool {
    // nothing the host could see, nothing that could fail: literals and `$` under total operators
    match e {
        E::Int(_) | E::Float(_) | E::Str(_) | E::Sym(_) | E::Unit | E::True | E::False | E::Input => true,
        E::Group(x) | E::Un(Un::Not | Un::Tis | Un::TypeOf, x) => effect_free(x),
        E::Bin(Bin::Pair | Bin::Eq | Bin::Ne | Bin::And | Bin::Or | Bin::Xor, a, b) => effect_free(a) && effect_free(b),
        E::Bin(Bin::Add, a, b) => matches!((&**a, &**b), (E::Int(x), E::Int(y)) if x.checked_add(*y).is_some()),
        E::List(xs) | E::Comma(xs, _) => xs.iter().all(effect_free),
        _ => false,
    }
}

fn wrap(n: &E) -> Option<E> {
    match n {
        // a property name is not an operand; a sequence cannot be put in brackets (a restart can: `(^~ x)` still
        // restarts the enclosing expression)
        E::Prop(_) | E::Seq(..) => None,
        _ => Some(E::Group(n.clone().b())),
    }
}

fn effect_bodies() -> Vec<E> {
    vec![E::Int(0), E::Unit, E::Bin(Bin::Add, E::Int(1).b(), E::Int(2).b()), E::Input, E::Str("ab".into()), E::List(vec![E::Int(1), E::Sym("k".into())])]
}

fn add_effect(n: &E, body: &E) -> Option<E> {
    match n {
        E::Int(_) | E::Float(_) | E::Str(_) | E::Sym(_) | E::Unit | E::True | E::False | E::Input | E::Ident(_) | E::Group(_) => Some(E::Effect(n.clone().b(), body.clone().b())),
        // directly after a finished suffix operation, `{5}~~ [0]` (generated since the repair C18-F2 of the parser)
        E::Un(u, x) if u.suffix() && !matches!(**x, E::Seq(..) | E::Effect(..)) => Some(E::Effect(n.clone().b(), body.clone().b())),
        _ => None,
    }
}

fn drop_effect(n: &E) -> Option<E> {
    match n {
        E::Effect(v, body) if effect_free(body) => Some((**v).clone()),
        _ => None,
    }
}

/// (kind, rewritten AST, allowed tree relation)
fn structural_rewrites(e: &E, r: &mut Rng, all: bool) -> Vec<(&'static str, E, TreeRel)> {
    let n = positions(e);
    let bodies = effect_bodies();
    let mut out = vec![];
    for k in 0..n {
        let mut kk = k;
        if let Some(x) = rewrite_at(e, &mut kk, &wrap) {
            out.push(("parenthesise-operand", x, TreeRel::ModGroups));
        }
        let body = if all { bodies[k % bodies.len()].clone() } else { r.pick(&bodies).clone() };
        let mut kk = k;
        if let Some(x) = rewrite_at(e, &mut kk, &|n| add_effect(n, &body)) {
            out.push(("add-effect-free-block", x, TreeRel::ModEffects));
        }
        let mut kk = k;
        if let Some(x) = rewrite_at(e, &mut kk, &drop_effect) {
            out.push(("drop-effect-free-block", x, TreeRel::ModEffects));
        }
    }
    out.into_iter().filter(|(_, x, _)| well_formed(x) && *x != *e).collect()
}

// ------------------------------------------------------------------ the monitor

fn compare(kind: &str, chain: &str, orig_src: &str, new_src: &str, input: &V, base: &Obs, resolves: &HashMap<u64, V>, rel: TreeRel, acc: &mut Acc) {
    let obs = observe(new_src, input, resolves);
    acc.evals += 2;
    acc.count(&format!("rewrites_{}", kind));
    let payload = || Json::obj().with("original", Json::s(orig_src)).with("rewritten", Json::s(new_src)).with("rewrite", Json::s(chain)).with("input", input.json());
    // ---- parse tree
    match (&base.tree, &obs.tree) {
        (Some(a), Some(b)) => {
            let (a, b) = (&norm_effects(a), &norm_effects(b));
            let same = match rel {
                TreeRel::Same => a == b,
                TreeRel::ModGroups => a.strip_groups() == b.strip_groups(),
                TreeRel::ModEffects => strip_effects(a).strip_groups() == strip_effects(b).strip_groups(),
            };
            acc.count("trees_compared");
            if !same {
                // structural root cause of a recorded finding: a block was added after a finished suffix operation and a
                // sub-expression separator that follows it turned into an implicit list (decided on the two trees)
                let seps = |t: &Tree| {
                    let x = t.sexpr();
                    x.matches("(ExpressionSeparator:").count() + x.matches("(Subexpression:").count()
                };
                let lists = |t: &Tree| t.sexpr().matches("(List:").count();
                let after_suffix = {
                    let x = b.sexpr();
                    ["(SideEffect:[ (EmptyApply:", "(SideEffect:[ (AccessRightInternal:", "(SideEffect:[ (AccessLengthInternal:"].iter().any(|p| x.contains(p))
                };
                if after_suffix && seps(b) < seps(a) && lists(b) > lists(a) && chain.contains("add-effect-free-block") {
                    acc.violation(
                        "tree|separator-after-block-after-suffix-operation-becomes-list".to_string(),
                        format!("{} turns {:?} into {:?} and the parse tree changes: {} became {}", chain, orig_src, new_src, a.sexpr(), b.sexpr()),
                        payload(),
                    );
                    return;
                }
                acc.violation(
                    format!("tree|{}", kind),
                    format!("{} turns {:?} into {:?} and the parse tree changes: {} became {}", chain, orig_src, new_src, a.sexpr(), b.sexpr()),
                    payload(),
                );
                return;
            }
        }
        (Some(_), None) => {
            acc.violation(format!("tree-lost|{}", kind), format!("{} turns {:?} into {:?}, which no longer parses into a tree ({})", chain, orig_src, new_src, obs.detail[0]), payload());
            return;
        }
        _ => {}
    }
    // ---- result and host calls, per store
    for i in 0..2 {
        let store = ["simple", "basic"][i];
        // a program that finished in a few steps and, rewritten, is still running after 20 000 (at least 40 times as
        // many): a layout rewrite adds a handful of steps, not a loop - decided on logical steps, not on time
        if matches!(base.out[i], Outcome::Value(_)) && obs.out[i] == Outcome::StepLimit && base.steps[i] * 40 <= obs.steps[i] {
            acc.violation(
                format!("result|no-longer-terminates|{}|{}", kind, store),
                format!("[{}] {} turns {:?} into {:?} with $ = {}: the program finished in {} steps, the rewritten one is still running after {}", store, chain, orig_src, new_src, input.show(), base.steps[i], obs.steps[i]),
                payload(),
            );
            return;
        }
        if matches!(base.out[i], Outcome::StepLimit | Outcome::Setup) || matches!(obs.out[i], Outcome::StepLimit | Outcome::Setup) {
            acc.count("budget_skipped");
            continue;
        }
        acc.count("results_compared");
        if base.out[i] != obs.out[i] {
            let class = match (&base.out[i], &obs.out[i]) {
                (Outcome::Value(_), Outcome::Value(_)) => "value",
                (_, Outcome::Rejected(_)) => "rejected",
                (_, Outcome::Panic(_)) => "panic",
                (_, Outcome::RunError) => "run-error",
                _ => "outcome",
            };
            acc.violation(
                format!("result|{}|{}|{}", class, kind, store),
                format!("[{}] {} turns {:?} into {:?} with $ = {}: result was {:?}, is now {:?} ({})", store, chain, orig_src, new_src, input.show(), base.out[i], obs.out[i], obs.detail[i].chars().take(120).collect::<String>()),
                payload(),
            );
            return;
        }
        if base.logs[i] != obs.logs[i] {
            acc.violation(
                format!("host-calls|{}|{}", kind, store),
                format!("[{}] {} turns {:?} into {:?}: host resolve calls were {:?}, are now {:?}", store, chain, orig_src, new_src, base.logs[i], obs.logs[i]),
                payload(),
            );
            return;
        }
    }
}

pub fn check_program(e: &E, input: &V, resolves: &HashMap<u64, V>, r: &mut Rng, all_single: bool, combos: usize, acc: &mut Acc) {
    let src = e.print();
    if printer_selfcheck(e, &src).is_err() {
        acc.count("printer_selfcheck_failed");
        return;
    }
    let base = observe(&src, input, resolves);
    acc.evals += 2;
    if base.out.iter().any(|o| matches!(o, Outcome::Rejected(_) | Outcome::Panic(_))) || base.tree.is_none() {
        // not a program the pipeline accepts as printed (C01 reports those): nothing to preserve
        acc.count("original_not_accepted_skipped");
        return;
    }
    let toks = match reflex(&src) {
        RLex::Tokens(t) => t,
        _ => {
            acc.count("reference_lexer_declined");
            return;
        }
    };
    let sig = significant(&toks);
    let ref_tree = ref_tree_of(&src);
    if ref_tree.is_some() {
        acc.count("programs_with_reference_tree");
    }
    // ---- single text rewrites at every position
    let trs = text_rewrites(&src, &toks);
    let pick_every = if all_single { 1 } else { 1 + trs.len() / 40 };
    for (k, rw) in trs.iter().enumerate() {
        if k % pick_every != 0 && !all_single {
            continue;
        }
        if !admissible(&toks, &sig, &ref_tree, rw) {
            acc.count("rewrite_not_admissible_by_reference");
            continue;
        }
        compare(rw.kind, rw.kind, &src, &rw.text, input, &base, resolves, TreeRel::Same, acc);
    }
    // ---- an effect-free block before every plain right operand
    for rw in block_before_rewrites(&src, &toks) {
        compare(rw.kind, rw.kind, &src, &rw.text, input, &base, resolves, TreeRel::ModEffects, acc);
    }
    // ---- single structural rewrites at every position
    let srs = structural_rewrites(e, r, all_single);
    for (kind, x, rel) in &srs {
        let new_src = x.print();
        if printer_selfcheck(x, &new_src).is_err() {
            acc.count("printer_selfcheck_failed");
            continue;
        }
        compare(kind, kind, &src, &new_src, input, &base, resolves, *rel, acc);
    }
    // ---- random combinations: a few structural rewrites, then a few text rewrites on the result
    for _ in 0..combos {
        let mut cur = e.clone();
        let mut rel = TreeRel::Same;
        let mut chain: Vec<&'static str> = vec![];
        for _ in 0..r.below(3) {
            let c = structural_rewrites(&cur, r, false);
            if c.is_empty() {
                break;
            }
            let (k, x, rl) = c[r.below(c.len())].clone();
            cur = x;
            chain.push(k);
            rel = match (rel, rl) {
                (TreeRel::ModEffects, _) | (_, TreeRel::ModEffects) => TreeRel::ModEffects,
                _ => TreeRel::ModGroups,
            };
        }
        let mut text = cur.print();
        if printer_selfcheck(&cur, &text).is_err() {
            continue;
        }
        for _ in 0..(1 + r.below(4)) {
            let toks2 = match reflex(&text) {
                RLex::Tokens(t) => t,
                _ => break,
            };
            let sig2 = significant(&toks2);
            let rt2 = ref_tree_of(&text);
            let c = text_rewrites(&text, &toks2);
            if c.is_empty() {
                break;
            }
            let rw = &c[r.below(c.len())];
            if admissible(&toks2, &sig2, &rt2, rw) {
                text = rw.text.clone();
                chain.push(rw.kind);
            }
        }
        // now and then blocks before operands as well (with the blocks after values from the structural step this
        // puts a block on each side of one operand)
        let mut rel = rel;
        for _ in 0..r.below(3) {
            if let RLex::Tokens(toks3) = reflex(&text) {
                let c = block_before_rewrites(&text, &toks3);
                if !c.is_empty() {
                    text = c[r.below(c.len())].text.clone();
                    chain.push("block-before-operand");
                    rel = TreeRel::ModEffects;
                }
            }
        }
        if chain.len() < 2 {
            continue;
        }
        acc.max("longest_rewrite_chain", chain.len() as u64);
        compare("combination", &chain.join(" + "), &src, &text, input, &base, resolves, rel, acc);
    }
}

/// text-level rewrites only, on a program given as text (the repository's own scripts)
pub fn check_text(src: &str, input: &V, resolves: &HashMap<u64, V>, r: &mut Rng, combos: usize, acc: &mut Acc) {
    let base = observe(src, input, resolves);
    acc.evals += 2;
    if base.out.iter().any(|o| matches!(o, Outcome::Rejected(_) | Outcome::Panic(_))) || base.tree.is_none() {
        acc.count("original_not_accepted_skipped");
        return;
    }
    let toks = match reflex(src) {
        RLex::Tokens(t) => t,
        _ => {
            acc.count("reference_lexer_declined");
            return;
        }
    };
    let sig = significant(&toks);
    let ref_tree = ref_tree_of(src);
    if ref_tree.is_some() {
        acc.count("programs_with_reference_tree");
    }
    for rw in text_rewrites(src, &toks) {
        if !admissible(&toks, &sig, &ref_tree, &rw) {
            acc.count("rewrite_not_admissible_by_reference");
            continue;
        }
        compare(rw.kind, rw.kind, src, &rw.text, input, &base, resolves, TreeRel::Same, acc);
    }
    for _ in 0..combos {
        let mut text = src.to_string();
        let mut chain: Vec<&'static str> = vec![];
        for _ in 0..(2 + r.below(6)) {
            let toks2 = match reflex(&text) {
                RLex::Tokens(t) => t,
                _ => break,
            };
            let sig2 = significant(&toks2);
            let rt2 = ref_tree_of(&text);
            let c = text_rewrites(&text, &toks2);
            if c.is_empty() {
                break;
            }
            let rw = &c[r.below(c.len())];
            if admissible(&toks2, &sig2, &rt2, rw) {
                text = rw.text.clone();
                chain.push(rw.kind);
            }
        }
        if chain.len() < 2 {
            continue;
        }
        acc.max("longest_rewrite_chain", chain.len() as u64);
        compare("combination", &chain.join(" + "), src, &text, input, &base, resolves, TreeRel::Same, acc);
    }
}

/// `check_program`, with every violation re-found on the smallest sub-program that still shows it
pub fn check_min(e: &E, input: &V, resolves: &HashMap<u64, V>, r: &mut Rng, all_single: bool, combos: usize, acc: &mut Acc) {
    let mut scratch = Acc::default();
    scratch.cur_case = acc.cur_case;
    check_program(e, input, resolves, r, all_single, combos, &mut scratch);
    let vs: Vec<crate::run::Violation> = std::mem::take(&mut scratch.violations).into_iter().map(|(_, v)| v).collect();
    acc.merge(scratch);
    for v in vs {
        let mut cur = e;
        let mut best: Option<crate::run::Violation> = None;
        loop {
            let mut next = None;
            for c in children(cur) {
                if has_reapply(c) {
                    continue;
                }
                let mut s2 = Acc::default();
                let mut r2 = Rng::for_case(1, 0);
                check_program(c, input, resolves, &mut r2, true, 0, &mut s2);
                if let Some(v2) = s2.violations.remove(&v.sig) {
                    next = Some((c, v2));
                    break;
                }
            }
            match next {
                Some((c, v2)) => {
                    cur = c;
                    best = Some(v2);
                }
                None => break,
            }
        }
        match best {
            Some(b) => acc.violation(v.sig.clone(), format!("{} [found in {:?}]", b.desc, e.print().chars().take(200).collect::<String>()), b.payload),
            None => acc.violation(v.sig.clone(), v.desc.clone(), v.payload),
        }
    }
}

pub fn run(ctx: &Ctx) -> (Acc, String, bool) {
    let k = ctx.pick(2usize, 3usize);
    let mut cache: Vec<Vec<E>> = vec![vec![]];
    let mut small: Vec<E> = vec![];
    for n in 1..=k {
        small.extend(all_of_size(n, &mut cache));
    }
    let ins = inputs();
    let resolves = host_resolves();
    let small_total = small.len() as u64;
    let random_total: u64 = ctx.pick(2_500, 150_000);
    let seed = ctx.seed;
    let cfg = GenCfg::default();
    let scripts = crate::corpus::repo_scripts();
    let script_total = scripts.len() as u64;
    // the bounded restart loops of C01 (restart from a branch, through brackets, from a logical operand, from the
    // else position, from a nested expression): rewrites around a restart must not change where it restarts
    let loops: Vec<E> = (0..9 * 8).map(|j| crate::ast::loop_program((j / 8) as i32, (j % 8) as usize)).collect();
    let loop_total = loops.len() as u64;
    let acc = run_cases(ctx, small_total + random_total + script_total + loop_total, |i, acc| {
        let mut r = Rng::for_case(seed, i);
        if i >= small_total + random_total + script_total {
            let e = &loops[(i - small_total - random_total - script_total) as usize];
            check_program(e, &V::Unit, &resolves, &mut r, true, 8, acc);
            acc.nontrivial += 1;
            acc.count("restart_loops_rewritten");
            return;
        }
        if i >= small_total + random_total {
            let (name, text) = &scripts[(i - small_total - random_total) as usize];
            check_text(text.trim_end(), &V::Unit, &resolves, &mut r, ctx.pick(20, 400), acc);
            acc.nontrivial += 1;
            acc.count("repo_scripts_rewritten");
            if i % 7 == 0 {
                acc.sample(Json::s(format!("repository script {}", name)));
            }
        } else if i < small_total {
            let e = &small[i as usize];
            let input = &ins[[0usize, 2, 4][(i % 3) as usize]];
            check_min(e, input, &resolves, &mut r, true, 2, acc);
            acc.nontrivial += 1;
        } else {
            let depth = 2 + r.below(4);
            let e = rand_program(&mut r, depth, &cfg);
            let input = r.pick(&ins).clone();
            acc.distinct.insert(fnv_str(&format!("{}|{}", e.print(), input.show())));
            acc.max("program_nodes", e.size() as u64);
            check_min(&e, &input, &resolves, &mut r, true, 6, acc);
            if i % 5_003 == 0 {
                acc.sample(Json::s(format!("random {:?} with $ = {}", e.print(), input.show())));
            }
        }
    });
    let rule = format!(
        "every core-language AST of <= {} nodes ({} programs) and {} random programs (depth <= 5) and the 72 bounded restart loops of C01; on each: every single application, at every position, of: widen a blank run with space / tab / several, blank to tab, annotation in a blank run, comment line in a blank run, remove a blank run, insert a blank / an annotation between adjacent tokens, trailing blanks before a line break and at the end, blanks on the empty line of a blank-line separator, comment line after a line break and at the start (text rewrites admitted only when the reference lexer sees the same significant tokens and, for the gated ones, the reference parser the same tree); parentheses around every operand; an effect-free side-effect block added after every value or group, before every plain operand that follows a binary operator or a comma, and as the first thing inside a group or expression literal; effect-free blocks dropped; plus random combinations of 2..7 rewrites; the text rewrites (single, and combinations) also on every script under the repository's tests/scripts. Parse tree (modulo trivia / added groups / added blocks), final value on both stores and host resolve sequence are compared with the unrewritten program's.",
        k, small_total, random_total
    );
    (acc, rule, false)
}

pub const ASSUMPTIONS: &[&str] = &[
    "where blanks may be added or removed is decided by the reference lexer (same significant tokens) and the reference precedence parser (same tree); programs with side-effect blocks have no reference tree and only get the rewrites that need no such confirmation (widening blanks, annotation inside an existing blank run, trailing blanks) and the structural ones",
    "a side-effect body is effect-free when it is built from literals and `$` under total operators only (nothing the host could see, nothing that could fail)",
    "the unrewritten program is the baseline: programs the pipeline does not accept as printed are C01's business and skipped here",
];
