//! Shared compile-pipeline sweep for C03 (totality), C04 (token accounting), C05 (stream
//! well-formedness), C06 (stack balance) and C07 (execution never panics): one corpus, one
//! pipeline run per input, one judge per property.

use crate::corpus;
use crate::mon::{Host, JumpHist, Mon};
use crate::pipe::{build_g, lex_g, parse_g, start, step, Fail, Stage};
use crate::reflex::{reflex, RLex};
use crate::run::{run_cases, Acc, Ctx};
use crate::store::{Basic, Simple, Store};
use crate::util::{fnv_str, panic_site, Json, Rng};
use crate::value::Mk;
use garnish_lang_compiler::build::BuildData;
use garnish_lang_compiler::lex::{LexerToken, TokenType as T};
use garnish_lang_compiler::parse::{Definition as Df, ParseResult};
use garnish_lang_compiler::verif as ticks;
use garnish_lang_traits::{GarnishData, GarnishDataType, Instruction as I};
use std::collections::HashMap;

#[derive(Clone, Copy, PartialEq, Debug)]
pub enum Which {
    C03,
    C04,
    C05,
    C06,
    C07,
}

pub fn tick_budget(n: usize) -> u64 {
    let m = (n as u64 + 4).min(2_000_000);
    64u64.saturating_mul(m).saturating_mul(m).saturating_mul(m).min(4_000_000_000)
}

// ------------------------------------------------------------------ canonical witnesses

fn canon_token(t: &crate::reflex::RTok) -> String {
    match t.ty {
        T::Number => "5".into(),
        T::CharList => "\"a\"".into(),
        T::ByteList => "'b'".into(),
        T::Identifier => "x".into(),
        T::Symbol => ":s".into(),
        T::Whitespace => " ".into(),
        T::Subexpression => "\n\n".into(),
        T::Annotation => "@a".into(),
        T::LineAnnotation => "@@\n".into(),
        T::PrefixIdentifier => "f`".into(),
        T::SuffixIdentifier => "`f".into(),
        T::InfixIdentifier => "`f`".into(),
        _ => t.text.clone(),
    }
}

/// Greedy token-level delta minimisation: remove tokens while `key(src)` stays the same, then
/// canonicalise literals/identifiers. Deterministic, so equal defects give equal witnesses.
pub fn minimize(src: &str, key: &dyn Fn(&str) -> Option<String>) -> String {
    let want = match key(src) {
        Some(k) => k,
        None => return src.to_string(),
    };
    let split = |s: &str| -> Vec<String> {
        match reflex(s) {
            RLex::Tokens(t) => t.iter().map(|x| x.text.clone()).collect(),
            _ => s.chars().map(|c| c.to_string()).collect(),
        }
    };
    let mut parts = split(src);
    // work budget in tokens re-processed (a candidate of a 16 000-token scaling family costs 16 000): long inputs get
    // the coarse windows (halves, quarters, ...) first, which shrink them in a logarithmic number of candidates
    let mut budget = 4_000_000usize;
    loop {
        let mut changed = false;
        let mut windows: Vec<usize> = vec![];
        let mut w0 = parts.len() / 2;
        while w0 > 6 {
            windows.push(w0);
            w0 /= 2;
        }
        // windows of 1..6 tokens (pairs of brackets, operator + operand, ...), larger first
        windows.extend([6usize, 4, 3, 2, 1]);
        for w in windows {
            let mut i = 0;
            while i + w <= parts.len() && budget > 0 {
                let mut cand = parts.clone();
                cand.drain(i..i + w);
                let s: String = cand.concat();
                budget = budget.saturating_sub(parts.len().max(1000));
                if key(&s).as_deref() == Some(want.as_str()) {
                    parts = split(&s);
                    changed = true;
                } else {
                    i += 1;
                }
            }
        }
        if !changed || budget == 0 {
            break;
        }
    }
    let min: String = parts.concat();
    // canonical spelling
    let mut out = min.clone();
    if let RLex::Tokens(t) = reflex(&min) {
        let c: String = t.iter().map(canon_token).collect();
        if key(&c).as_deref() == Some(want.as_str()) {
            out = c;
        }
    }
    cap_witness(out)
}

/// long witnesses (scaling families) are abbreviated: head + length + hash
pub fn cap_witness(w: String) -> String {
    let n = w.chars().count();
    if n <= 80 {
        w
    } else {
        format!("{}...<{} chars #{:x}>", w.chars().take(40).collect::<String>(), n, crate::util::fnv_str(&w))
    }
}

// ------------------------------------------------------------------ C03

fn c03_key(src: &str) -> Option<String> {
    let mut dummy = Acc::default();
    c03_raw(src, &mut dummy)
}

/// runs the three stages under tick/instruction/data budgets; returns the raw violation key
fn c03_raw(src: &str, acc: &mut Acc) -> Option<String> {
    let nchars = src.chars().count();
    ticks::reset(tick_budget(nchars));
    let toks = match lex_g(src) {
        Ok(t) => t,
        Err(Fail::Panic(_, msg, loc)) => {
            ticks::reset(u64::MAX);
            return Some(if msg.contains("verif tick budget") { "ticks|lex".into() } else { format!("panic|{}|lex", panic_site(&loc)) });
        }
        Err(_) => {
            acc.count("lex_err");
            ticks::reset(u64::MAX);
            return None;
        }
    };
    acc.max("ticks_lex", ticks::ticks());
    let n = toks.len();
    ticks::reset(tick_budget(n));
    let parsed = match parse_g(&toks) {
        Ok(p) => p,
        Err(Fail::Panic(_, msg, loc)) => {
            ticks::reset(u64::MAX);
            return Some(if msg.contains("verif tick budget") { "ticks|parse".into() } else { format!("panic|{}|parse", panic_site(&loc)) });
        }
        Err(_) => {
            acc.count("parse_err");
            ticks::reset(u64::MAX);
            return None;
        }
    };
    acc.max("ticks_parse", ticks::ticks());
    let lit: usize = toks.iter().map(|t| t.get_text().chars().count()).sum();
    let r1 = c03_build::<Simple>(&parsed, n, lit, acc);
    let r2 = c03_build::<Basic>(&parsed, n, lit, acc);
    ticks::reset(u64::MAX);
    r1.or(r2)
}

fn c03_build<D: Store + Mk>(parsed: &ParseResult, n: usize, lit: usize, acc: &mut Acc) -> Option<String> {
    let mut m: Mon<D> = Mon::fresh();
    m.shadow_on = false;
    let base_data = m.get_data_len();
    m.max_instr = 16 * (n + 4);
    m.max_data = base_data + 64 * (n + 4) + 4 * lit;
    ticks::reset(tick_budget(n));
    let r = build_g(parsed, &mut m);
    acc.max("ticks_build", ticks::ticks());
    match r {
        Ok(_) => {
            acc.count("build_ok");
            acc.max("instructions_per_token_x100", (m.get_instruction_len() * 100 / (n + 1)) as u64);
            None
        }
        Err(Fail::Panic(_, msg, loc)) => Some(if msg.contains("verif tick budget") { format!("ticks|build|{}", D::NAME) } else { format!("panic|{}|build", panic_site(&loc)) }),
        Err(Fail::Err(_, e)) => {
            if let Some(b) = m.budget_hit {
                Some(format!("unbounded|build|{}", b))
            } else {
                acc.count("build_err");
                let _ = e;
                None
            }
        }
    }
}

fn judge_c03(src: &str, kind: &str, acc: &mut Acc) {
    acc.evals += 1;
    if let Some(raw) = c03_raw(src, acc) {
        let seen = acc.counters.get(&format!("raw::{}", raw)).cloned().unwrap_or(0);
        acc.count(&format!("raw::{}", raw));
        let witness = if seen < 6 { minimize(src, &c03_key) } else { "(not minimised: more than 6 occurrences in this thread)".to_string() };
        if seen < 6 {
            acc.violation(
                format!("{}|{}", raw, witness),
                format!("compile pipeline is not total on {:?} (minimised witness {:?}, corpus {}): {}", src.chars().take(200).collect::<String>(), witness, kind, raw),
                Json::obj().with("input", Json::s(src)).with("witness", Json::s(witness.clone())).with("corpus", Json::s(kind)),
            );
        }
    }
}

// ------------------------------------------------------------------ shared: accepted programs

pub struct Accepted<D: Store + Mk> {
    pub m: Mon<D>,
    pub build: BuildData<Mon<D>>,
    pub i0: usize,
    pub i1: usize,
    pub j0: usize,
    pub j1: usize,
    pub d0: usize,
}

/// lex+parse once, then build into a fresh monitored store; None unless every stage accepts
pub fn accept<D: Store + Mk>(parsed: &ParseResult, ntok: usize) -> Option<Accepted<D>> {
    let mut m: Mon<D> = Mon::fresh();
    m.max_instr = 64 * (ntok + 4);
    m.max_data = 100_000 + 256 * ntok;
    let (i0, j0, d0) = (m.get_instruction_len(), m.get_jump_table_len(), m.get_data_len());
    ticks::reset(tick_budget(ntok));
    let r = build_g(parsed, &mut m);
    ticks::reset(u64::MAX);
    m.settle();
    match r {
        Ok(b) => {
            let (i1, j1) = (m.get_instruction_len(), m.get_jump_table_len());
            Some(Accepted { m, build: b, i0, i1, j0, j1, d0 })
        }
        Err(_) => None,
    }
}

pub fn front(src: &str) -> Option<(Vec<LexerToken>, ParseResult)> {
    ticks::reset(tick_budget(src.chars().count()));
    let toks = lex_g(src).ok();
    ticks::reset(u64::MAX);
    let toks = toks?;
    ticks::reset(tick_budget(toks.len()));
    let p = parse_g(&toks).ok();
    ticks::reset(u64::MAX);
    Some((toks, p?))
}

// ------------------------------------------------------------------ C04

fn is_trivia(t: T) -> bool {
    matches!(t, T::Whitespace | T::Annotation | T::LineAnnotation)
}
fn is_closer(t: T) -> bool {
    matches!(t, T::EndGroup | T::EndExpression | T::EndSideEffect)
}
fn is_separator_tok(t: T) -> bool {
    matches!(t, T::Subexpression | T::ExpressionSeparator)
}
fn is_separator_def(d: Df) -> bool {
    matches!(d, Df::Subexpression | Df::ExpressionSeparator)
}

/// returns (class, description) of the first structural problem of the parse tree, if any
pub fn tree_problem(toks: &[LexerToken], p: &ParseResult) -> Option<(String, String)> {
    let nodes = p.get_nodes();
    if nodes.is_empty() {
        // nothing significant may have been dropped
        let sig: Vec<&LexerToken> = toks.iter().filter(|t| !is_trivia(t.get_token_type()) && !is_separator_tok(t.get_token_type())).collect();
        if !sig.is_empty() {
            return Some(("lost-token|empty-tree".into(), format!("empty tree although the input has significant token {:?}", sig[0].get_text())));
        }
        return None;
    }
    let n = nodes.len();
    let root = p.get_root();
    if root >= n {
        return Some(("bad-root".into(), format!("root {} out of {} nodes", root, n)));
    }
    if nodes[root].get_parent().is_some() {
        return Some(("root-has-parent".into(), format!("root {} has parent {:?}", root, nodes[root].get_parent())));
    }
    // reachability from the root first: every node once, no sharing, no cycle
    let mut seen = vec![false; n];
    let mut order: Vec<usize> = Vec::with_capacity(n);
    let mut stack: Vec<(usize, u8)> = vec![(root, 0)];
    let mut guard = 0usize;
    while let Some((i, st)) = stack.pop() {
        guard += 1;
        if guard > 4 * n + 8 {
            return Some(("cycle".into(), "walk does not terminate".into()));
        }
        match st {
            0 => {
                if i >= n {
                    return Some(("dangling-child".into(), format!("child index {} does not exist", i)));
                }
                if seen[i] {
                    return Some((format!("shared-or-cycle|{:?}", nodes[i].get_definition()), format!("node {} reached twice", i)));
                }
                seen[i] = true;
                stack.push((i, 1));
                if let Some(l) = nodes[i].get_left() {
                    stack.push((l, 0));
                }
            }
            _ => {
                order.push(i);
                if let Some(r) = nodes[i].get_right() {
                    stack.push((r, 0));
                }
            }
        }
    }
    // nodes the root does not reach: a dropped redundant separator may stay behind as garbage,
    // anything else is a part of the program that the tree lost
    for (u, nd) in nodes.iter().enumerate() {
        if !seen[u] && !is_separator_def(nd.get_definition()) {
            let pdef = nd.get_parent().and_then(|p| nodes.get(p)).map(|p| p.get_definition());
            let sd = nd.get_secondary_definition();
            use garnish_lang_compiler::parse::SecondaryDefinition as S;
            // the token right before this node's token, trivia aside
            let my_pos = (nd.get_lex_token().get_line(), nd.get_lex_token().get_column());
            let prev_tok = toks
                .iter()
                .take_while(|t| (t.get_line(), t.get_column()) < my_pos)
                .filter(|t| !is_trivia(t.get_token_type()))
                .last()
                .map(|t| t.get_token_type());
            let cause = if prev_tok == Some(T::EndSideEffect) && matches!(sd, S::UnaryPrefix | S::StartGrouping) {
                "prefix-or-group-right-after-side-effect".to_string()
            } else {
                format!("{:?}|named-parent:{}", nd.get_definition(), pdef.map(|x| format!("{:?}", x)).unwrap_or("none".into()))
            };
            return Some((
                format!("unreachable|{}", cause),
                format!("node {} ({:?} {:?}, names parent {:?}) is not reachable from the root", u, nd.get_definition(), nd.get_lex_token().get_text(), nd.get_parent()),
            ));
        }
    }
    // links agree (among reachable nodes)
    for (i, nd) in nodes.iter().enumerate() {
        if !seen[i] {
            continue;
        }
        for (side, c) in [("left", nd.get_left()), ("right", nd.get_right())] {
            if let Some(c) = c {
                if nodes[c].get_parent() != Some(i) {
                    return Some((
                        format!("link-mismatch|{:?}>{:?}", nd.get_definition(), nodes[c].get_definition()),
                        format!("node {} ({:?}) has {} child {} ({:?}) whose parent is {:?}", i, nd.get_definition(), side, c, nodes[c].get_definition(), nodes[c].get_parent()),
                    ));
                }
            }
        }
        if nd.get_left().is_some() && nd.get_left() == nd.get_right() {
            return Some((format!("same-child-twice|{:?}", nd.get_definition()), format!("node {} has the same node as left and right child", i)));
        }
    }
    // tokens in source order: the walk, minus synthesized list nodes, must list the significant
    // tokens exactly; separators may be dropped when redundant but never reordered or invented
    let pos = |t: &LexerToken| (t.get_line(), t.get_column());
    let walk: Vec<(Df, (usize, usize), String)> = order
        .iter()
        .filter(|i| nodes[**i].get_definition() != Df::List)
        .map(|i| {
            let t = nodes[*i].get_lex_token();
            (nodes[*i].get_definition(), pos(&t), t.get_text().clone())
        })
        .collect();
    for w in walk.windows(2) {
        if w[0].1 >= w[1].1 {
            return Some((
                format!("out-of-order|{:?}-{:?}", w[0].0, w[1].0),
                format!("in-order walk visits {:?} at {:?} before {:?} at {:?}", w[0].2, w[0].1, w[1].2, w[1].1),
            ));
        }
    }
    let sig: Vec<&LexerToken> = toks.iter().filter(|t| !is_trivia(t.get_token_type()) && !is_closer(t.get_token_type())).collect();
    let walk_nonsep: Vec<((usize, usize), &String)> = walk.iter().filter(|w| !is_separator_def(w.0)).map(|w| (w.1, &w.2)).collect();
    let sig_nonsep: Vec<((usize, usize), &String)> = sig.iter().filter(|t| !is_separator_tok(t.get_token_type())).map(|t| (pos(t), t.get_text())).collect();
    if walk_nonsep != sig_nonsep {
        let mut k = 0;
        while k < walk_nonsep.len() && k < sig_nonsep.len() && walk_nonsep[k] == sig_nonsep[k] {
            k += 1;
        }
        let missing = sig_nonsep.get(k).map(|x| x.1.clone()).unwrap_or_default();
        let tt = toks.iter().find(|t| Some(pos(t)) == sig_nonsep.get(k).map(|x| x.0)).map(|t| format!("{:?}", t.get_token_type())).unwrap_or("extra-node".into());
        return Some((format!("lost-token|{}", tt), format!("the tree does not account for token {:?} (significant token #{}); walk has {} nodes for {} significant tokens", missing, k, walk_nonsep.len(), sig_nonsep.len())));
    }
    // separator nodes are a subsequence of separator tokens
    let sep_tokens: Vec<(usize, usize)> = sig.iter().filter(|t| is_separator_tok(t.get_token_type())).map(|t| pos(t)).collect();
    let mut it = sep_tokens.iter();
    for w in walk.iter().filter(|w| is_separator_def(w.0)) {
        if !it.any(|p| *p == w.1) {
            return Some(("invented-separator".into(), format!("separator node at {:?} matches no separator token", w.1)));
        }
    }
    None
}

/// node kinds that are pure structure: accounted through their children
fn structural(d: Df, parent: Option<Df>) -> bool {
    match d {
        Df::Group | Df::ElseJump | Df::Drop => true,
        Df::List | Df::CommaList => parent == Some(d),
        _ => false,
    }
}

pub fn metadata_problem<D: Store + Mk>(p: &ParseResult, a: &Accepted<D>) -> Option<(String, String)> {
    let nodes = p.get_nodes();
    let meta = a.build.instruction_metadata();
    let mut named = vec![false; nodes.len()];
    for m in meta {
        if let Some(i) = m.get_parse_node_index() {
            if i < nodes.len() {
                named[i] = true;
            }
        }
    }
    // dropped redundant separators may stay behind as unreachable garbage: not part of the tree
    let mut reach = vec![false; nodes.len()];
    let mut st = vec![p.get_root()];
    while let Some(i) = st.pop() {
        if i < nodes.len() && !reach[i] {
            reach[i] = true;
            if let Some(l) = nodes[i].get_left() {
                st.push(l);
            }
            if let Some(r) = nodes[i].get_right() {
                st.push(r);
            }
        }
    }
    for (i, nd) in nodes.iter().enumerate() {
        if !reach[i] {
            continue;
        }
        let pd = nd.get_parent().and_then(|x| nodes.get(x)).map(|x| x.get_definition());
        if !named[i] && !structural(nd.get_definition(), pd) {
            return Some((
                format!("no-instruction|{:?}|under:{}", nd.get_definition(), pd.map(|x| format!("{:?}", x)).unwrap_or("root".into())),
                format!("node {} ({:?} {:?}) is attributed no emitted instruction", i, nd.get_definition(), nd.get_lex_token().get_text()),
            ));
        }
    }
    None
}

fn c04_key(src: &str) -> Option<String> {
    let (toks, parsed) = front(src)?;
    let a = accept::<Simple>(&parsed, toks.len())?;
    if let Some((c, _)) = tree_problem(&toks, &parsed) {
        return Some(c);
    }
    metadata_problem(&parsed, &a).map(|x| x.0)
}

fn judge_c04(src: &str, kind: &str, acc: &mut Acc) {
    acc.evals += 1;
    let (toks, parsed) = match front(src) {
        Some(x) => x,
        None => {
            acc.count("not_accepted_front");
            return;
        }
    };
    let a = match accept::<Simple>(&parsed, toks.len()) {
        Some(a) => a,
        None => {
            acc.count("not_accepted_build");
            return;
        }
    };
    acc.count("accepted");
    acc.add("nodes_checked", parsed.get_nodes().len() as u64);
    for nd in parsed.get_nodes() {
        acc.seen("definitions", format!("{:?}", nd.get_definition()));
    }
    let prob = tree_problem(&toks, &parsed).or_else(|| metadata_problem(&parsed, &a));
    if let Some((class, desc)) = prob {
        let seen = acc.counters.get(&format!("raw::{}", class)).cloned().unwrap_or(0);
        acc.count(&format!("raw::{}", class));
        if seen < 6 {
            let witness = minimize(src, &c04_key);
            // the class already names the structural root cause (node kinds / relation); the
            // minimised witness is kept in the description and payload
            acc.violation(
                class.clone(),
                format!("accepted program {:?} (minimised {:?}, corpus {}): {}", src.chars().take(200).collect::<String>(), witness, kind, desc),
                Json::obj().with("input", Json::s(src)).with("witness", Json::s(witness.clone())).with("corpus", Json::s(kind)),
            );
        }
    }
}

// ------------------------------------------------------------------ C05

pub fn stream_problem<D: Store + Mk>(p: &ParseResult, a: &Accepted<D>) -> Option<(String, String)> {
    let m = &a.m;
    let ilen = m.get_instruction_len();
    let jlen = m.get_jump_table_len();
    let dlen = m.get_data_len();
    if a.i1 == a.i0 {
        return Some(("no-instructions".into(), "build emitted no instruction".into()));
    }
    for i in a.i0..a.i1 {
        let (ins, data) = match m.get_instruction(i) {
            Some(x) => x,
            None => return Some(("missing-instruction".into(), format!("instruction {} unreadable", i))),
        };
        match ins {
            I::Put | I::Resolve => match data {
                None => return Some((format!("no-operand|{:?}", ins), format!("{:?} at {} has no operand", ins, i))),
                Some(addr) => {
                    if addr >= dlen {
                        return Some((format!("data-operand-out-of-range|{:?}", ins), format!("{:?} {} at {} but the store has {} values", ins, addr, i, dlen)));
                    }
                    match m.get_data_type(addr) {
                        Ok(GarnishDataType::Invalid) | Ok(GarnishDataType::Custom) | Err(_) => {
                            return Some((format!("data-operand-not-a-value|{:?}", ins), format!("{:?} {} at {} names a non-value ({:?})", ins, addr, i, m.get_data_type(addr).map_err(|e| e.to_string()))))
                        }
                        Ok(t) => {
                            if ins == I::Resolve && t != GarnishDataType::Symbol {
                                return Some(("resolve-operand-not-symbol".into(), format!("Resolve {} at {} names a {:?}", addr, i, t)));
                            }
                            if t == GarnishDataType::Expression {
                                match m.get_expression(addr) {
                                    Ok(j) if j < jlen => {}
                                    other => return Some(("expression-value-bad-jump".into(), format!("expression value at {} names jump entry {:?} of {}", addr, other.map_err(|e| e.to_string()), jlen))),
                                }
                            }
                        }
                    }
                }
            },
            I::JumpTo | I::JumpIfTrue | I::JumpIfFalse | I::And | I::Or | I::Reapply => match data {
                None => return Some((format!("no-operand|{:?}", ins), format!("{:?} at {} has no operand", ins, i))),
                Some(j) => {
                    if j >= jlen {
                        return Some((format!("jump-operand-out-of-range|{:?}", ins), format!("{:?} {} at {} but the jump table has {} entries", ins, j, i, jlen)));
                    }
                }
            },
            I::MakeList => match data {
                None => return Some(("no-operand|MakeList".into(), format!("MakeList at {} has no operand", i))),
                // the operand is a count, not an address: C05 says nothing about it and C06 (operands pending) owns it
                Some(_) => {}
            },
            I::Invalid => return Some(("invalid-instruction".into(), format!("Invalid instruction at {}", i))),
            _ => {}
        }
    }
    // jump entries written by this build
    let mut patched: HashMap<usize, bool> = HashMap::new();
    for (idx, h) in &m.jump_log {
        match h {
            JumpHist::Pushed(v, il) => {
                patched.insert(*idx, !(*v == 0 && *il > 0));
            }
            JumpHist::Patched(_, _) => {
                patched.insert(*idx, true);
            }
        }
    }
    for j in a.j0..a.j1 {
        match m.get_from_jump_table(j) {
            None => return Some(("missing-jump-entry".into(), format!("jump entry {} unreadable", j))),
            Some(t) => {
                let nodes = p.get_nodes();
                // an empty group, or groups holding nothing but an empty group
                let empty_group = |i: Option<usize>| {
                    let mut cur = i;
                    for _ in 0..=nodes.len() {
                        match cur.and_then(|i| nodes.get(i)) {
                            Some(n) if n.get_definition() == Df::Group => match n.get_right() {
                                None => return true,
                                r => cur = r,
                            },
                            _ => return false,
                        }
                    }
                    false
                };
                if t == ilen && nodes.iter().any(|n| n.get_definition() == Df::NestedExpression && empty_group(n.get_right())) {
                    // a branch / expression body that is an empty group emits nothing (root cause named, not the witness)
                    return Some(("jump-target-one-past-end|nested-expression-holding-an-empty-group".into(), format!("jump entry {} -> {} = one past the last instruction: a nested expression whose whole body is an empty group emits nothing", j, t)));
                }
                if t >= ilen {
                    return Some(("jump-target-out-of-range".into(), format!("jump entry {} -> {} but there are {} instructions", j, t, ilen)));
                }
                if t < a.i0 {
                    return Some(("jump-target-before-program".into(), format!("jump entry {} -> {} lies before this program's first instruction {}", j, t, a.i0)));
                }
            }
        }
        if patched.get(&j) == Some(&false) {
            return Some(("unpatched-placeholder".into(), format!("jump entry {} was pushed as a placeholder and never patched", j)));
        }
    }
    let entry = *a.build.jump_index();
    if entry < a.j0 || entry >= a.j1 {
        return Some(("entry-not-own".into(), format!("reported entry {} outside this build's jump entries {}..{}", entry, a.j0, a.j1)));
    }
    // last instruction ends the last straight-line run
    match m.get_instruction(a.i1 - 1) {
        Some((I::EndExpression, _)) | Some((I::JumpTo, _)) => {}
        other => return Some(("open-ended-run".into(), format!("the stream ends with {:?}", other))),
    }
    // metadata
    let meta = a.build.instruction_metadata();
    if meta.len() != a.i1 - a.i0 {
        return Some(("metadata-count".into(), format!("{} metadata records for {} instructions", meta.len(), a.i1 - a.i0)));
    }
    for (k, md) in meta.iter().enumerate() {
        if let Some(i) = md.get_parse_node_index() {
            if i >= p.get_nodes().len() && !p.get_nodes().is_empty() {
                return Some(("metadata-bad-node".into(), format!("metadata {} names parse node {} of {}", k, i, p.get_nodes().len())));
            }
        }
    }
    None
}

fn c05_key(src: &str) -> Option<String> {
    let (toks, parsed) = front(src)?;
    let a = accept::<Simple>(&parsed, toks.len());
    let b = accept::<Basic>(&parsed, toks.len());
    if a.is_some() != b.is_some() {
        return Some("stores-disagree-on-acceptance".into());
    }
    let r1 = a.and_then(|a| stream_problem(&parsed, &a).map(|x| x.0));
    let r2 = b.and_then(|b| stream_problem(&parsed, &b).map(|x| x.0));
    r1.or(r2)
}

fn judge_c05(src: &str, kind: &str, acc: &mut Acc) {
    acc.evals += 1;
    let (toks, parsed) = match front(src) {
        Some(x) => x,
        None => return,
    };
    let a = accept::<Simple>(&parsed, toks.len());
    let b = accept::<Basic>(&parsed, toks.len());
    let mut prob: Option<(String, String)> = None;
    if a.is_some() != b.is_some() {
        prob = Some(("stores-disagree-on-acceptance".into(), format!("build accepted on simple: {}, on basic: {}", a.is_some(), b.is_some())));
    }
    if let Some(a) = &a {
        acc.count("accepted");
        acc.add("instructions_checked", (a.i1 - a.i0) as u64);
        acc.add("jump_entries_checked", (a.j1 - a.j0) as u64);
        for i in a.i0..a.i1 {
            if let Some((ins, _)) = a.m.get_instruction(i) {
                acc.seen("instruction_kinds", format!("{:?}", ins));
            }
        }
        prob = prob.or_else(|| stream_problem(&parsed, a).map(|(c, d)| (c, format!("[simple] {}", d))));
    }
    if let Some(b) = &b {
        prob = prob.or_else(|| stream_problem(&parsed, b).map(|(c, d)| (c, format!("[basic] {}", d))));
    }
    if let Some((class, desc)) = prob {
        let seen = acc.counters.get(&format!("raw::{}", class)).cloned().unwrap_or(0);
        acc.count(&format!("raw::{}", class));
        if seen < 6 {
            let witness = minimize(src, &c05_key);
            acc.violation(
                // classes that already name a root cause are not split by witness
                if class.contains('|') { class.clone() } else { format!("{}|{}", class, witness) },
                format!("built stream of {:?} (minimised {:?}, corpus {}): {}", src.chars().take(200).collect::<String>(), witness, kind, desc),
                Json::obj().with("input", Json::s(src)).with("witness", Json::s(witness.clone())).with("corpus", Json::s(kind)),
            );
        }
    }
}

// ------------------------------------------------------------------ C07

#[derive(Clone, Copy, Debug, PartialEq)]
pub enum HostK {
    None,
    Declining,
    Accepting,
}

fn run_for_panic<D: Store + Mk>(parsed: &ParseResult, ntok: usize, hk: HostK, max_steps: u64, acc: &mut Acc) -> Option<String> {
    let mut a = accept::<D>(parsed, ntok)?;
    a.m.host = match hk {
        HostK::None => Host::none(),
        HostK::Declining => Host::declining(),
        HostK::Accepting => Host::accepting(),
    };
    a.m.shadow_on = false;
    a.m.max_instr = usize::MAX;
    a.m.max_data = a.d0 + 10_000;
    // one step may walk a range of two billion positions (a slice with a huge range cast to a list): the run is
    // cut off after a bounded number of store calls, which is a budget of this harness, not a verdict
    a.m.max_ops = a.m.ops + 3_000_000;
    a.m.max_reads = a.m.reads.get() + 1_000_000;
    let unit = a.m.add_unit().ok()?;
    start(&mut a.m, *a.build.jump_index(), unit).ok()?;
    let mut n = 0u64;
    loop {
        if n >= max_steps {
            acc.count("step_limit");
            return None;
        }
        if a.m.budget_hit == Some("ops") {
            acc.count("store_call_budget_hit");
            return None;
        }
        if let Some((ins, _)) = a.m.get_instruction(a.m.get_instruction_cursor()) {
            if n < 64 {
                acc.seen("executed_instruction_kinds", format!("{:?}", ins));
            }
        }
        match step(&mut a.m) {
            Ok(true) => n += 1,
            Ok(false) => {
                acc.count("ran_to_end");
                return None;
            }
            Err(Fail::Err(..)) => {
                acc.count("ended_with_err");
                return None;
            }
            Err(Fail::Panic(_, msg, loc)) => {
                // message with numbers removed: one signature per kind of panic at a site
                let class: String = msg.chars().filter(|c| !c.is_ascii_digit()).take(70).collect();
                return Some(format!("panic|{}|run|{}", panic_site(&loc), class));
            }
        }
    }
}

fn c07_key(src: &str) -> Option<String> {
    let mut dummy = Acc::default();
    c07_raw(src, 2000, &mut dummy).map(|x| x.0)
}

fn c07_raw(src: &str, max_steps: u64, acc: &mut Acc) -> Option<(String, String)> {
    let (toks, parsed) = front(src)?;
    for hk in [HostK::None, HostK::Declining, HostK::Accepting] {
        if let Some(k) = run_for_panic::<Simple>(&parsed, toks.len(), hk, max_steps, acc) {
            return Some((k, format!("simple host={:?}", hk)));
        }
        if let Some(k) = run_for_panic::<Basic>(&parsed, toks.len(), hk, max_steps, acc) {
            return Some((k, format!("basic host={:?}", hk)));
        }
        acc.evals += 2;
    }
    None
}

fn judge_c07(src: &str, kind: &str, max_steps: u64, acc: &mut Acc) {
    if let Some((raw, whr)) = c07_raw(src, max_steps, acc) {
        let seen = acc.counters.get(&format!("raw::{}", raw)).cloned().unwrap_or(0);
        acc.count(&format!("raw::{}", raw));
        if seen < 6 {
            let witness = minimize(src, &c07_key);
            acc.violation(
                raw.clone(),
                format!("executing {:?} panicked ({}; minimised witness {:?}, corpus {}): {}", src.chars().take(200).collect::<String>(), whr, witness, kind, raw),
                Json::obj().with("input", Json::s(src)).with("witness", Json::s(witness.clone())).with("corpus", Json::s(kind)),
            );
        }
    }
}

// ------------------------------------------------------------------ corpus driver

/// inputs that are always part of the corpus: witnesses of past and known findings, seeds of
/// interesting regions
/// Keyed records looked up along symbol paths, some of whose parts are missing or lead into
/// values that cannot be looked into: every lookup form of the language over one record.
fn lookup_program(r: &mut Rng) -> String {
    fn record(r: &mut Rng, depth: u32) -> String {
        let keys = ["a", "b", "c", "d"];
        let n = 1 + r.below(4) as usize;
        let mut items = vec![];
        for k in 0..n {
            let v = match r.below(if depth == 0 { 4 } else { 6 }) {
                0 => "5".to_string(),
                1 => "\"ab\"".to_string(),
                2 => "()".to_string(),
                3 => "1..4".to_string(),
                _ => record(r, depth - 1),
            };
            if r.chance(1, 6) {
                items.push(v);
            } else {
                items.push(format!(":{} = {}", keys[(k + r.below(2) as usize) % 4], v));
            }
        }
        if items.len() == 1 {
            format!("({},)", items[0])
        } else {
            format!("({})", items.join(", "))
        }
    }
    let rec = record(r, 2);
    let names = ["a", "b", "c", "d", "zz", "0", "1"];
    let len = 1 + r.below(3);
    let mut path = String::new();
    for k in 0..len {
        let n = *r.pick::<&str>(&names);
        if k == 0 {
            path = if n.chars().all(|c| c.is_ascii_digit()) { format!("({})", n) } else { format!(":{}", n) };
        } else if n.chars().all(|c| c.is_ascii_digit()) {
            path.push_str(&format!(".({})", n));
        } else {
            path.push_str(&format!(".{}", n));
        }
    }
    match r.below(6) {
        0 => format!("{} <~ {}", rec, path),
        1 => format!("{} ~> {}", path, rec),
        2 => format!("{} ~ {}", rec, path),
        3 => format!("{}{}", rec, path.replacen(':', ".", 1).replacen('(', ".(", 1)),
        4 => format!("{} <~ ({} {})", rec, path, path),
        _ => format!("x = {}\n\nx <~ {}, x ~ {}", rec, path, path),
    }
}

/// judge one given source text (debugging aid: `gmon judge C05 "<src>"`)
pub fn judge_one(prop: &str, src: &str) -> Acc {
    let mut acc = Acc::default();
    match prop {
        "C03" => judge_c03(src, "given", &mut acc),
        "C04" => judge_c04(src, "given", &mut acc),
        "C05" => judge_c05(src, "given", &mut acc),
        "C06" => crate::props::c06::judge(src, "given", 20_000, &mut acc),
        "C07" => judge_c07(src, "given", 20_000, &mut acc),
        _ => {}
    }
    acc
}

pub const FIXED: [&str; 27] = [
    "1 ;; 2",
    "1 ;;",
    "5 + @x",
    "1 , , 2",
    "5 + [1] -- 3",
    "[1] (5)",
    "[1] 5",
    "1 [2] [3]",
    "([1])",
    "{[1]}",
    "5~~ 5",
    "x.|.x",
    "''1 2''",
    "'' ",
    "$! ?> 1 |> $! ?> 2",
    "(1 2).a",
    "\"abc\".:a",
    "1 << 32",
    "{ $ < 3 ?> ^~ ($ + 1) |> $ } <~ 0",
    "1 + (^~ 2)",
    "a ?> b |> c ?> d |> e",
    "1 && 2 || 3 ^^ 4",
    "5 [1 \n\n 2]",
    "f` 5 `g` 6 `h",
    "3 ; (4..2) ~# (1 2)",
    "(\"hello\" <~ 3..0) == \"x\"",
    "(1..3) ~# (1 2)",
];

pub const BOUNDARY_LITS: [&str; 65] = [
    "2147483647",
    "2147483648",
    "0",
    "1",
    "31",
    "32",
    "33",
    "1e999",
    "1.5",
    "0.0000001",
    "179769313486231570000000000000000000000000000000000000000000000000000000000000000000000000000000000000000000000000000000000000000000000000000000000000000000000000000000000000000000000000000000000000000000000000000000000000000000000000000000000000000000000000000000000000000000000000000000000000000000000.0",
    "\"\"",
    "\"é\"",
    "\"abc\"",
    "''",
    "'ab'",
    "'''255 0'''",
    "(1 2 3)",
    "(1 2 3 . 1.5)",
    "(:a = 1, :b = 2)",
    "(0..2)",
    "(5..1)",
    "(1 <> 2)",
    "((1 2 3) <~ (0..10))",
    "(\"hello\" <~ (3..0))",
    "(1 = 2)",
    ":sym",
    "(:a.b)",
    "()",
    "$?",
    "$",
    "{ $ }",
    "(0 - 1)",
    "(0 - 2147483647 - 1)",
    "(\"abc\" <~ (1..9))",
    "('ab' <~ (0..5))",
    "((1 2 3 <~ (1..2)) <~ (0..0))",
    "((1 <> 2 <> 3) <~ (2..0))",
    "(4..2)",
    "(1 2)",
    // slices and ranges at the ends of the number range
    "((1, 2, 3) <~ (2147483645..2147483646))",
    "((1 <> 2 <> 3) <~ (0..1e300))",
    "((1 <> 2) <~ ((0 - 5)..2147483646))",
    "(\"abc\" <~ ((0 - 1)..2147483646))",
    "((1 2 3) <~ ((0 - 2147483647)..(0 - 2147483646)))",
    "('ab' <~ (2147483646..2147483646))",
    "((:a.b.c) <~ (1..2147483646))",
    "(2147483646..2147483646)",
    "((0 - 2147483647)..(0 - 2147483646))",
    "(0..1e300)",
    "(1.5..2.5)",
    "((1 <> 2 <~ (0..0)) <> 3)",
    "((1 <> 2 <~ ((0 - 5)..2147483646)) <> 3)",
    "(((1, 2) <~ (2147483646..2147483646)) <> 3)",
    "(1 <> (2 3) <> \"ab\")",
    "(,)",
    "\"\"",
    ":héllo",
    "(:名前 = 1, :b = \"é\")",
    // a character and a byte value (cast targets), code points around the surrogate block and past the last one
    "(\"a\" . 0)",
    "('a' . 0)",
    "55296",
    "57343",
    "1114112",
    "((1, 2, 3) <~ ((0 - 1)..1))",
];

pub const BOUNDARY_OPS: [&str; 36] = [
    "+", "-", "*", "/", "//", "%", "**", "<<", ">>", "&", "|", "^", "&&", "||", "^^", "==", "!=", "<", "<=", ">", ">=", "=", ".", "..", ">..", "..<", ">..<", "<>", "~", "<~", "~>", "~#", "#=", ",", " ", "`f`",
];
pub const BOUNDARY_PRE: [&str; 9] = ["--", "++", "!", "!!", "??", "#", "_.", "^~", "f`"];
pub const BOUNDARY_SUF: [&str; 4] = ["~~", "._", ".|", "`f"];

pub fn run(ctx: &Ctx, which: Which) -> (Acc, String, bool) {
    // exhaustive class sequences
    let (l_full, l_gap) = match which {
        Which::C03 | Which::C04 | Which::C05 => (ctx.pick(3usize, 4usize), ctx.pick(3usize, 3usize)),
        _ => (ctx.pick(3usize, 4usize), 2usize),
    };
    // blocks: (len, gaps)
    let mut blocks: Vec<(usize, usize)> = vec![];
    for l in 1..=l_full {
        blocks.push((l, if l <= l_gap { 3 } else { 2 }));
    }
    if !ctx.quick() && matches!(which, Which::C03 | Which::C04) {
        blocks.push((5, 1));
    }
    let mut offs = vec![0u64];
    for (l, g) in &blocks {
        offs.push(offs.last().unwrap() + corpus::seq_count(*l, *g));
    }
    let ex_total = *offs.last().unwrap();
    let nb = BOUNDARY_LITS.len() as u64;
    // every literal under every unary operator, every (literal, operator, literal) triple, and random two-operator programs
    let boundary_pairs = nb * nb * (BOUNDARY_OPS.len() as u64) + nb * 13;
    let boundary_total = if which == Which::C07 { boundary_pairs + ctx.pick(40_000, 2_000_000) } else { 0 };
    let soup_total: u64 = ctx.pick(150_000, 6_000_000);
    let fam_sizes: Vec<usize> = if ctx.quick() { vec![8, 64, 512, 4096] } else { vec![8, 64, 512, 4096, 16384] };
    let fam_total = (corpus::FAMILIES.len() * fam_sizes.len()) as u64;
    let seed = ctx.seed;
    let steps = ctx.pick(2_000u64, 10_000u64);
    let fixed_total = FIXED.len() as u64;
    // well-formed programs from the C01 generators: every AST of <= 3 nodes and random larger ones
    let small_asts: Vec<crate::ast::E> = if matches!(which, Which::C03) {
        vec![]
    } else {
        let mut cache: Vec<Vec<crate::ast::E>> = vec![vec![]];
        let mut v = vec![];
        for n in 1..=3 {
            v.extend(crate::ast::all_of_size(n, &mut cache));
        }
        v
    };
    let wf_random: u64 = if matches!(which, Which::C03) { 0 } else { ctx.pick(120_000, 3_000_000) };
    let wf_total = small_asts.len() as u64 + wf_random;
    let gen_cfg = crate::ast::GenCfg::default();
    // a share of the generated programs restart (`^~`) from arbitrary positions: else parts, later conditions,
    // operands, list items (runs are step-bounded, the static checks do not run them)
    let gen_cfg_reapply = crate::ast::GenCfg { allow_reapply: true, ..crate::ast::GenCfg::default() };
    // the repository's own scripts, whole and cut at every line break (prefixes and suffixes)
    let scripts: Vec<String> = {
        let mut v = vec![];
        for (_, text) in corpus::repo_scripts() {
            let cuts: Vec<usize> = text.char_indices().filter(|(_, c)| *c == '\n').map(|(i, _)| i).collect();
            for c in &cuts {
                v.push(text[..*c].to_string());
                v.push(text[*c + 1..].to_string());
            }
            v.push(text);
        }
        v
    };
    let script_total = scripts.len() as u64;
    // C07 runs every accepted input six times (2 stores x 3 hosts): one token shorter there
    let focus_len = if which == Which::C07 { ctx.pick(4usize, 5usize) } else { ctx.pick(5usize, 6usize) };
    let focus_total = corpus::focus_count(focus_len);
    let total = focus_total + ex_total + boundary_total + soup_total + fam_total + fixed_total + wf_total + script_total;
    let acc = run_cases(ctx, total, |i0, acc| {
        if i0 < focus_total {
            let (src, name) = corpus::focus_seq(focus_len, i0);
            acc.nontrivial += 1;
            if i0 % 40_009 == 0 {
                acc.sample(Json::s(format!("focused sequence ({}) {:?}", name, src)));
            }
            let kind = format!("focus-{}", name);
            if ctx.only_case.is_some() {
                println!("case input ({}): {:?}", kind, src);
            }
            match which {
                Which::C03 => judge_c03(&src, &kind, acc),
                Which::C04 => judge_c04(&src, &kind, acc),
                Which::C05 => judge_c05(&src, &kind, acc),
                Which::C06 => crate::props::c06::judge(&src, &kind, steps, acc),
                Which::C07 => judge_c07(&src, &kind, steps, acc),
            }
            return;
        }
        let i = i0 - focus_total;
        let total = total - focus_total;
        let (src, kind): (String, String) = if i < ex_total {
            let bi = offs.iter().rposition(|o| *o <= i).unwrap();
            let (l, g) = blocks[bi];
            let code = i - offs[bi];
            // second pass with alternative spellings for a pseudo-random half of the sequences
            let mut r = Rng::for_case(seed, i);
            let use_alt = r.chance(1, 2);
            let (s, names) = {
                let mut opt: Option<&mut Rng> = if use_alt { Some(&mut r) } else { None };
                corpus::seq(l, g, code, &mut opt)
            };
            acc.nontrivial += 1;
            if i % 60_013 == 0 {
                acc.sample(Json::s(format!("class sequence {:?} spelled {:?}", names, s)));
            }
            (s, format!("class-seq-{}", l))
        } else if i < ex_total + boundary_total {
            let j = i - ex_total;
            let mut r = Rng::for_case(seed, i);
            let nops = BOUNDARY_OPS.len() as u64;
            let s = if j < nb * 13 {
                let lit = BOUNDARY_LITS[(j / 13) as usize];
                let k = (j % 13) as usize;
                if k < 9 { format!("{} {}", BOUNDARY_PRE[k], lit) } else { format!("{} {}", lit, BOUNDARY_SUF[k - 9]) }
            } else if j >= boundary_pairs {
                let a = BOUNDARY_LITS[r.below(nb as usize)];
                let b = BOUNDARY_LITS[r.below(nb as usize)];
                let op = BOUNDARY_OPS[r.below(nops as usize)];
                match r.below(3) {
                    0 => format!("({} {} {}) {} {}", a, op, b, BOUNDARY_OPS[r.below(nops as usize)], BOUNDARY_LITS[r.below(nb as usize)]),
                    1 => format!("{} {} ({} {} {})", BOUNDARY_LITS[r.below(nb as usize)], BOUNDARY_OPS[r.below(nops as usize)], a, op, b),
                    _ => format!("{} ({} {} {}) {}", BOUNDARY_PRE[r.below(9)], a, op, b, BOUNDARY_SUF[r.below(4)]),
                }
            } else {
                let jj = j - nb * 13;
                let a = BOUNDARY_LITS[(jj / (nb * nops)) as usize % nb as usize];
                let b = BOUNDARY_LITS[((jj / nops) % nb) as usize];
                let op = BOUNDARY_OPS[(jj % nops) as usize];
                format!("{} {} {}", a, op, b)
            };
            acc.nontrivial += 1;
            if j % 5003 == 0 {
                acc.sample(Json::s(format!("boundary program {:?}", s)));
            }
            (s, "boundary-literals".into())
        } else if i < ex_total + boundary_total + soup_total {
            let mut r = Rng::for_case(seed, i);
            let s = match r.below(8) {
                0..=4 => corpus::token_soup(&mut r, ctx.pick(40, 200)),
                5 => corpus::literal_soup(&mut r),
                _ => corpus::char_soup(&mut r, ctx.pick(40, 120)),
            };
            acc.distinct.insert(fnv_str(&s));
            if i % 30_011 == 0 {
                acc.sample(Json::s(format!("soup {:?}", s)));
            }
            (s, "soup".into())
        } else if i < ex_total + boundary_total + soup_total + fam_total {
            let j = (i - ex_total - boundary_total - soup_total) as usize;
            let (f, mut sz) = (j / fam_sizes.len(), fam_sizes[j % fam_sizes.len()]);
            // families with one build root per repetition cost quadratic time in build (polynomial, but minutes)
            if matches!(corpus::FAMILIES[f], "else-chain" | "nested-expressions" | "suffix-chain") {
                sz = sz.min(2048);
            }
            acc.nontrivial += 1;
            (corpus::family(f, sz), format!("family:{}x{}", corpus::FAMILIES[f], sz))
        } else if i < ex_total + boundary_total + soup_total + fam_total + fixed_total {
            acc.nontrivial += 1;
            (FIXED[(i - ex_total - boundary_total - soup_total - fam_total) as usize].to_string(), "fixed".to_string())
        } else if i >= total - script_total {
            acc.nontrivial += 1;
            acc.count("repo_script_inputs");
            (scripts[(i - (total - script_total)) as usize].clone(), "repo-script".to_string())
        } else {
            let j = i - ex_total - boundary_total - soup_total - fam_total - fixed_total;
            if (j as usize) < small_asts.len() {
                acc.nontrivial += 1;
                (small_asts[j as usize].print(), "ast-small".to_string())
            } else {
                let mut r = Rng::for_case(seed, i);
                let depth = 2 + r.below(4);
                let s = if r.chance(1, 8) {
                    lookup_program(&mut r)
                } else {
                    let cfg = if r.chance(1, 4) { &gen_cfg_reapply } else { &gen_cfg };
                    crate::ast::rand_program(&mut r, depth, cfg).print()
                };
                acc.distinct.insert(fnv_str(&s));
                if j % 20_011 == 0 {
                    acc.sample(Json::s(format!("generated program {:?}", s)));
                }
                (s, "ast-random".to_string())
            }
        };
        if ctx.only_case.is_some() {
            println!("case input ({}): {:?}", kind, src);
        }
        let t0 = std::time::Instant::now();
        match which {
            Which::C03 => judge_c03(&src, &kind, acc),
            Which::C04 => judge_c04(&src, &kind, acc),
            Which::C05 => judge_c05(&src, &kind, acc),
            Which::C06 => crate::props::c06::judge(&src, &kind, steps, acc),
            Which::C07 => judge_c07(&src, &kind, steps, acc),
        }
        // development aid: GMON_SLOW_MS=<n> lists the inputs that took longer (wall clock is never a verdict)
        if let Ok(ms) = std::env::var("GMON_SLOW_MS") {
            let el = t0.elapsed().as_millis();
            if el >= ms.parse::<u128>().unwrap_or(1000) {
                eprintln!("SLOW {} ms ({}): {:?}", el, kind, src.chars().take(200).collect::<String>());
            }
        }
    });
    let rule = format!(
        "corpus: every sequence up to length {} over five focused alphabets of 10-12 tokens (conditionals, blocks and lists, expressions and apply forms, separators, identifier applications) = {} inputs; every sequence of token classes (33 classes, DESIGN Appendix B) of length 1..{} with gap fillers none/space/annotation up to length {} (space/none beyond){}, half of them re-spelled with alternative spellings = {} inputs; {}{} random token soups (<= {} tokens, bracket-balanced bias) and raw character soups; {} scaling families x sizes {:?}; fixed regression inputs; the repository's own tests/scripts/*.garnish whole and cut at every line break; for C04-C07 additionally every core-language AST of <= 3 nodes and random well-formed programs from the C01 generators, printed with minimal parentheses. distinct_nontrivial counts the enumerated class sequences, boundary programs, families and distinct soups.",
        focus_len,
        focus_total,
        l_full,
        l_gap,
        if blocks.iter().any(|b| b.0 == 5) { " plus length 5 without fillers" } else { "" },
        ex_total,
        if boundary_total > 0 { format!("{} boundary-literal programs ({} literals x 36 binary / 13 unary operators); ", boundary_total, BOUNDARY_LITS.len()) } else { String::new() },
        soup_total,
        ctx.pick(40, 200),
        corpus::FAMILIES.len(),
        fam_sizes
    );
    (acc, rule, false)
}
