//! C09 Number arithmetic is exact or unit, never wrapped.
//! Oracle: independent reference in i64/i128 and f64. Two levels: GarnishNumber methods on
//! SimpleNumber, and the arithmetic/bitwise instructions end to end on both stores.

use crate::mon::Mon;
use crate::pipe::{exec_one, Fail};
use crate::run::{run_cases, Acc, Ctx};
use crate::store::{Basic, Simple, Store};
use crate::util::{guarded, panic_site, Json, Rng};
use crate::value::{Mk, V};
use garnish_lang_simple_data::SimpleNumber as N;
use garnish_lang_traits::{GarnishNumber, Instruction as I};

#[derive(Clone, Copy, Debug, PartialEq)]
pub enum Op {
    Add,
    Sub,
    Mul,
    Div,
    IDiv,
    Pow,
    Rem,
    BAnd,
    BOr,
    BXor,
    Shl,
    Shr,
    Abs,
    Neg,
    BNot,
}

pub const BIN: [Op; 12] = [Op::Add, Op::Sub, Op::Mul, Op::Div, Op::IDiv, Op::Pow, Op::Rem, Op::BAnd, Op::BOr, Op::BXor, Op::Shl, Op::Shr];
pub const UN: [Op; 3] = [Op::Abs, Op::Neg, Op::BNot];

impl Op {
    pub fn instr(self) -> I {
        match self {
            Op::Add => I::Add,
            Op::Sub => I::Subtract,
            Op::Mul => I::Multiply,
            Op::Div => I::Divide,
            Op::IDiv => I::IntegerDivide,
            Op::Pow => I::Power,
            Op::Rem => I::Remainder,
            Op::BAnd => I::BitwiseAnd,
            Op::BOr => I::BitwiseOr,
            Op::BXor => I::BitwiseXor,
            Op::Shl => I::BitwiseShiftLeft,
            Op::Shr => I::BitwiseShiftRight,
            Op::Abs => I::AbsoluteValue,
            Op::Neg => I::Opposite,
            Op::BNot => I::BitwiseNot,
        }
    }
    pub fn unary(self) -> bool {
        matches!(self, Op::Abs | Op::Neg | Op::BNot)
    }
    fn apply(self, a: N, b: N) -> Option<N> {
        match self {
            Op::Add => a.plus(b),
            Op::Sub => a.subtract(b),
            Op::Mul => a.multiply(b),
            Op::Div => a.divide(b),
            Op::IDiv => a.integer_divide(b),
            Op::Pow => a.power(b),
            Op::Rem => a.remainder(b),
            Op::BAnd => a.bitwise_and(b),
            Op::BOr => a.bitwise_or(b),
            Op::BXor => a.bitwise_xor(b),
            Op::Shl => a.bitwise_shift_left(b),
            Op::Shr => a.bitwise_shift_right(b),
            Op::Abs => a.absolute_value(),
            Op::Neg => a.opposite(),
            Op::BNot => a.bitwise_not(),
        }
    }
}

/// Admissible results: any member is accepted (the statement leaves a choice in two places).
#[derive(Debug, Clone, PartialEq)]
pub enum Want {
    Unit,
    Int(i32),
    Float(f64),
    /// unit or this integer (shift that moves bits out)
    UnitOrInt(i32),
    /// float `//`: the truncated quotient as integer or as integral float
    IntOrFloat(i32, f64),
    /// float `//` whose truncated quotient does not fit i32: unit or the integral float
    UnitOrFloat(f64),
}

fn fits(x: i128) -> Option<i32> {
    if x >= i32::MIN as i128 && x <= i32::MAX as i128 { Some(x as i32) } else { None }
}
fn int_or_unit(x: i128) -> Want {
    match fits(x) {
        Some(v) => Want::Int(v),
        None => Want::Unit,
    }
}
fn float_or_unit(f: f64) -> Want {
    if f.is_finite() { Want::Float(f) } else { Want::Unit }
}

pub fn reference(op: Op, a: N, b: N) -> Want {
    use N::*;
    match (op, a, b) {
        // ---- unary
        (Op::Abs, Integer(x), _) => int_or_unit((x as i128).abs()),
        (Op::Abs, Float(x), _) => float_or_unit(x.abs()),
        (Op::Neg, Integer(x), _) => int_or_unit(-(x as i128)),
        (Op::Neg, Float(x), _) => float_or_unit(-x),
        (Op::BNot, Integer(x), _) => Want::Int(!x),
        (Op::BNot, Float(_), _) => Want::Unit,
        // ---- bitwise binary
        (Op::BAnd, Integer(x), Integer(y)) => Want::Int(x & y),
        (Op::BOr, Integer(x), Integer(y)) => Want::Int(x | y),
        (Op::BXor, Integer(x), Integer(y)) => Want::Int(x ^ y),
        (Op::Shl, Integer(x), Integer(k)) => {
            if !(0..=31).contains(&k) {
                Want::Unit
            } else {
                let exact = (x as i128) << k;
                match fits(exact) {
                    Some(v) => Want::Int(v),
                    None => Want::UnitOrInt(((x as u32) << k) as i32),
                }
            }
        }
        (Op::Shr, Integer(x), Integer(k)) => {
            if !(0..=31).contains(&k) {
                Want::Unit
            } else {
                Want::Int(x >> k)
            }
        }
        (Op::BAnd | Op::BOr | Op::BXor | Op::Shl | Op::Shr, _, _) => Want::Unit,
        // ---- integer arithmetic
        (Op::Add, Integer(x), Integer(y)) => int_or_unit(x as i128 + y as i128),
        (Op::Sub, Integer(x), Integer(y)) => int_or_unit(x as i128 - y as i128),
        (Op::Mul, Integer(x), Integer(y)) => int_or_unit(x as i128 * y as i128),
        (Op::Div | Op::IDiv, Integer(x), Integer(y)) => {
            if y == 0 {
                Want::Unit
            } else {
                int_or_unit(x as i128 / y as i128)
            }
        }
        (Op::Rem, Integer(x), Integer(y)) => {
            if y == 0 || (x == i32::MIN && y == -1) {
                Want::Unit
            } else {
                int_or_unit(x as i128 % y as i128)
            }
        }
        (Op::Pow, Integer(x), Integer(y)) => {
            if y < 0 {
                Want::Unit
            } else {
                // exact power with early exit once out of i32 range
                let mut acc: i128 = 1;
                let mut over = false;
                if x == 0 || x == 1 {
                    acc = if y == 0 { 1 } else { x as i128 };
                } else if x == -1 {
                    acc = if y % 2 == 0 { 1 } else { -1 };
                } else {
                    for _ in 0..y {
                        acc *= x as i128;
                        if acc.abs() > (1i128 << 40) {
                            over = true;
                            break;
                        }
                    }
                }
                if over { Want::Unit } else { int_or_unit(acc) }
            }
        }
        // ---- float / mixed arithmetic (promotion to f64)
        (op, a, b) => {
            let x = match a {
                Integer(v) => v as f64,
                Float(v) => v,
            };
            let y = match b {
                Integer(v) => v as f64,
                Float(v) => v,
            };
            match op {
                Op::Add => float_or_unit(x + y),
                Op::Sub => float_or_unit(x - y),
                Op::Mul => float_or_unit(x * y),
                Op::Div => {
                    if y == 0.0 {
                        Want::Unit
                    } else {
                        float_or_unit(x / y)
                    }
                }
                Op::Rem => {
                    if y == 0.0 {
                        Want::Unit
                    } else {
                        float_or_unit(x % y)
                    }
                }
                Op::Pow => {
                    if y < 0.0 {
                        Want::Unit
                    } else {
                        float_or_unit(x.powf(y))
                    }
                }
                Op::IDiv => {
                    if y == 0.0 {
                        Want::Unit
                    } else {
                        let q = (x / y).trunc();
                        if !q.is_finite() {
                            Want::Unit
                        } else if q >= i32::MIN as f64 && q <= i32::MAX as f64 {
                            Want::IntOrFloat(q as i32, q)
                        } else {
                            Want::UnitOrFloat(q)
                        }
                    }
                }
                _ => unreachable!(),
            }
        }
    }
}

fn admissible(w: &Want, got: &V) -> bool {
    let feq = |a: f64, b: f64| a == b || (a.to_bits() == b.to_bits());
    match (w, got) {
        (Want::Unit, V::Unit) => true,
        (Want::Int(a), V::Int(b)) => a == b,
        (Want::Float(a), V::Float(b)) => feq(*a, *b),
        (Want::UnitOrInt(_), V::Unit) => true,
        (Want::UnitOrInt(a), V::Int(b)) => a == b,
        (Want::IntOrFloat(a, _), V::Int(b)) => a == b,
        (Want::IntOrFloat(_, a), V::Float(b)) => feq(*a, *b),
        (Want::UnitOrFloat(_), V::Unit) => true,
        (Want::UnitOrFloat(a), V::Float(b)) => feq(*a, *b),
        _ => false,
    }
}

fn nclass(n: N) -> &'static str {
    match n {
        N::Integer(_) => "int",
        N::Float(f) if f.is_nan() => "nan",
        N::Float(f) if f.is_infinite() => "inf",
        N::Float(_) => "float",
    }
}
fn vclass(v: &V) -> &'static str {
    match v {
        V::Unit => "unit",
        V::Int(i32::MAX) | V::Int(i32::MIN) => "int-at-limit",
        V::Int(_) => "int",
        V::Float(f) if f.is_nan() => "nan",
        V::Float(f) if f.is_infinite() => "inf",
        V::Float(_) => "float",
        _ => "other",
    }
}
fn wclass(w: &Want) -> &'static str {
    match w {
        Want::Unit => "unit",
        Want::Int(_) => "int",
        Want::Float(_) => "float",
        Want::UnitOrInt(_) => "unit|int",
        Want::IntOrFloat(..) => "int|float",
        Want::UnitOrFloat(_) => "unit|float",
    }
}

fn cause(op: Op, a: N, b: N, w: &Want, got: &str) -> String {
    let extra = match (op, b) {
        (Op::Shl | Op::Shr, N::Integer(k)) => {
            if k < 0 {
                ",count<0"
            } else if k > 31 {
                ",count>31"
            } else {
                ",count0..31"
            }
        }
        _ => "",
    };
    if op.unary() {
        format!("{:?}({}):want {} got {}", op, nclass(a), wclass(w), got)
    } else {
        format!("{:?}({},{}{}):want {} got {}", op, nclass(a), nclass(b), extra, wclass(w), got)
    }
}

fn nshow(n: N) -> String {
    match n {
        N::Integer(i) => format!("{}", i),
        N::Float(f) => format!("{:?}f", f),
    }
}

fn check_direct(op: Op, a: N, b: N, acc: &mut Acc) {
    acc.evals += 1;
    let w = reference(op, a, b);
    let r = guarded(|| op.apply(a, b));
    acc.seen("want_classes", format!("{:?}:{}", op, wclass(&w)));
    if acc.evals % 700_001 == 0 {
        acc.sample(Json::s(format!("{:?} {} {} -> {:?} (reference admits {:?})", op, nshow(a), nshow(b), r.as_ref().ok().map(|x| x.map(nshow)), w)));
    }
    let payload = || Json::obj().with("level", Json::s("GarnishNumber")).with("op", Json::s(format!("{:?}", op))).with("a", Json::s(nshow(a))).with("b", Json::s(nshow(b)));
    match r {
        Err((msg, loc)) => {
            acc.violation(
                format!("panic|{}|{}", panic_site(&loc), cause(op, a, b, &w, "panic")),
                format!("{:?} {} {} panicked: {} at {}", op, nshow(a), nshow(b), msg, loc),
                payload().with("want", Json::s(format!("{:?}", w))),
            );
        }
        Ok(res) => {
            let got = match res {
                None => V::Unit,
                Some(n) => V::num(n),
            };
            if !admissible(&w, &got) {
                acc.violation(
                    format!("wrong-value|GarnishNumber|{}", cause(op, a, b, &w, vclass(&got))),
                    format!("{:?} {} {} = {} but the exact-or-unit rule admits {:?}", op, nshow(a), nshow(b), got.show(), w),
                    payload().with("want", Json::s(format!("{:?}", w))).with("got", got.json()),
                );
            }
        }
    }
}

fn check_instr<D: Store + Mk>(op: Op, a: N, b: N, acc: &mut Acc) {
    acc.evals += 1;
    let w = reference(op, a, b);
    let mut m: Mon<D> = Mon::fresh();
    let operands: Vec<V> = if op.unary() { vec![V::num(a)] } else { vec![V::num(a), V::num(b)] };
    let payload = || {
        Json::obj()
            .with("level", Json::s("instruction"))
            .with("store", Json::s(D::NAME))
            .with("op", Json::s(format!("{:?}", op)))
            .with("a", Json::s(nshow(a)))
            .with("b", Json::s(nshow(b)))
            .with("want", Json::s(format!("{:?}", w)))
    };
    let one = match exec_one(&mut m, op.instr(), None, &operands) {
        Ok(o) => o,
        Err(e) => {
            acc.inconclusive.push(format!("C09 setup failed: {}", e));
            return;
        }
    };
    acc.seen("instructions", format!("{:?}", op.instr()));
    match &one.outcome {
        Err(Fail::Panic(_, msg, loc)) => acc.violation(
            format!("panic|{}|{}", panic_site(loc), cause(op, a, b, &w, "panic")),
            format!("[{}] instruction {:?} on {} {} panicked: {} at {}", D::NAME, op.instr(), nshow(a), nshow(b), msg, loc),
            payload(),
        ),
        Err(Fail::Err(_, e)) => acc.violation(
            format!("err|{:?}|{}", op.instr(), cause(op, a, b, &w, "err")),
            format!("[{}] instruction {:?} on {} {} failed: {}", D::NAME, op.instr(), nshow(a), nshow(b), e),
            payload(),
        ),
        Ok(_) => {
            let expect_depth = 1;
            if one.depth_after != expect_depth {
                acc.violation(
                    format!("imbalance|{:?}|depth{}", op.instr(), one.depth_after),
                    format!("[{}] {:?} left {} operands (expected 1)", D::NAME, op.instr(), one.depth_after),
                    payload(),
                );
                return;
            }
            match &one.top {
                Some(Ok(got)) => {
                    if !admissible(&w, got) {
                        acc.violation(
                            format!("wrong-value|{:?}|{}", op.instr(), cause(op, a, b, &w, vclass(got))),
                            format!("[{}] {} {:?} {} = {} but the exact-or-unit rule admits {:?}", D::NAME, nshow(a), op.instr(), nshow(b), got.show(), w),
                            payload().with("got", got.json()),
                        );
                    }
                }
                other => acc.violation(
                    format!("unreadable|{:?}|result", op.instr()),
                    format!("[{}] result of {:?} unreadable: {:?}", D::NAME, op.instr(), other),
                    payload(),
                ),
            }
        }
    }
}

pub fn int_lattice() -> Vec<i32> {
    let mut v: Vec<i64> = vec![i32::MIN as i64, i32::MIN as i64 + 1, -1, 0, 1, i32::MAX as i64 - 1, i32::MAX as i64];
    for k in 0..=31 {
        let p = 1i64 << k;
        for d in [-1i64, 0, 1] {
            v.push(p + d);
            v.push(-p + d);
        }
    }
    // shift counts and small factors
    for x in [2, 3, 5, 7, 10, 15, 16, 30, 31, 32, 33, 63, 64, 100, 46340, 46341, 65535, 65536] {
        v.push(x);
        v.push(-x);
    }
    let mut out: Vec<i32> = v.into_iter().filter(|x| *x >= i32::MIN as i64 && *x <= i32::MAX as i64).map(|x| x as i32).collect();
    out.sort();
    out.dedup();
    out
}

pub fn float_lattice() -> Vec<f64> {
    let mut v = vec![
        0.0,
        -0.0,
        f64::from_bits(1),
        -f64::from_bits(1),
        f64::MIN_POSITIVE,
        0.1,
        0.5,
        -0.5,
        1.0,
        -1.0,
        1.5,
        -1.5,
        2.0,
        2.5,
        -2.5,
        3.0,
        1e-300,
        2147483647.0,
        2147483647.5,
        2147483648.0,
        -2147483648.0,
        -2147483648.5,
        -2147483649.0,
        4294967296.0,
        9007199254740991.0,
        9007199254740992.0,
        9007199254740993.0,
        1e10,
        -1e10,
        1e100,
        1e308,
        -1e308,
        f64::MAX,
        f64::MIN,
        f64::INFINITY,
        f64::NEG_INFINITY,
        f64::NAN,
    ];
    v.push(1023.999);
    v
}

fn rand_num(r: &mut Rng) -> N {
    match r.below(10) {
        0..=5 => N::Integer(r.next() as i32),
        6 => N::Integer(r.range(-40, 40) as i32),
        7 => N::Float(f64::from_bits(r.next())),
        8 => N::Float((r.next() as i32) as f64 / 8.0),
        _ => N::Float(*r.pick(&float_lattice())),
    }
}

pub fn run(ctx: &Ctx) -> (Acc, String, bool) {
    let ints = int_lattice();
    let floats = float_lattice();
    let ni = ints.len() as u64;
    let nf = floats.len() as u64;
    // section A: all int pairs x binary ops (direct) ; section B: unary over all ; section C: mixed/floats exhaustive ;
    // section D: instruction level on both stores over a sub-lattice ; section E: random
    let a_total = ni * ni;
    let mut mixed: Vec<N> = floats.iter().map(|f| N::Float(*f)).collect();
    for i in [i32::MIN, -3, -1, 0, 1, 2, 3, 31, 32, 1 << 24, (1 << 24) + 1, i32::MAX] {
        mixed.push(N::Integer(i));
    }
    let c_total = (mixed.len() * mixed.len()) as u64;
    // instruction-level operand set: a thinner lattice (every 3rd) plus all floats
    let mut thin: Vec<N> = ints.iter().step_by(ctx.pick(5, 2)).map(|i| N::Integer(*i)).collect();
    for i in [i32::MIN, -1, 0, 1, 31, 32, 33, i32::MAX] {
        thin.push(N::Integer(i));
    }
    for f in &floats {
        thin.push(N::Float(*f));
    }
    let d_total = (thin.len() * thin.len()) as u64;
    let e_total: u64 = ctx.pick(2_000_000, 100_000_000);
    let total = a_total + c_total + d_total + e_total + 1;
    let seed = ctx.seed;
    let acc = run_cases(ctx, total, |i, acc| {
        if i < a_total {
            let (a, b) = (N::Integer(ints[(i / ni) as usize]), N::Integer(ints[(i % ni) as usize]));
            for op in BIN {
                check_direct(op, a, b, acc);
            }
            acc.nontrivial += 1;
        } else if i < a_total + c_total {
            let j = i - a_total;
            let n = mixed.len() as u64;
            let (a, b) = (mixed[(j / n) as usize], mixed[(j % n) as usize]);
            for op in BIN {
                check_direct(op, a, b, acc);
            }
            acc.nontrivial += 1;
        } else if i < a_total + c_total + d_total {
            let j = i - a_total - c_total;
            let n = thin.len() as u64;
            let (a, b) = (thin[(j / n) as usize], thin[(j % n) as usize]);
            for op in BIN {
                check_instr::<Simple>(op, a, b, acc);
                check_instr::<Basic>(op, a, b, acc);
            }
            acc.nontrivial += 1;
        } else if i < a_total + c_total + d_total + e_total {
            let mut r = Rng::for_case(seed, i);
            let (a, b) = (rand_num(&mut r), rand_num(&mut r));
            for op in BIN {
                check_direct(op, a, b, acc);
            }
            if r.chance(1, 8) {
                let op = *r.pick(&BIN);
                check_instr::<Simple>(op, a, b, acc);
                check_instr::<Basic>(op, a, b, acc);
            }
            let h = crate::util::fnv_str(&format!("{}|{}", nshow(a), nshow(b)));
            acc.distinct.insert(h);
        } else {
            // unary operations over the whole lattice, both levels
            for x in ints.iter().map(|i| N::Integer(*i)).chain(floats.iter().map(|f| N::Float(*f))) {
                for op in UN {
                    check_direct(op, x, N::Integer(0), acc);
                    check_instr::<Simple>(op, x, N::Integer(0), acc);
                    check_instr::<Basic>(op, x, N::Integer(0), acc);
                }
                acc.nontrivial += 1;
            }
            acc.sample(Json::s(format!("lattice: {} ints, {} floats; e.g. {:?}", ni, nf, &ints[..6])));
        }
    });
    let rule = format!(
        "exhaustive: all {}^2 pairs of the i32 boundary lattice x 12 binary ops (GarnishNumber level), all {}^2 float/mixed pairs, {}^2 lattice pairs x 12 ops x 2 stores at instruction level, unary ops over the lattice; plus {} random pairs (distinct by operand pair). A case is non-trivial when it is an operand pair on which all 12 operations were checked against the i128/f64 reference.",
        ni,
        mixed.len(),
        thin.len(),
        e_total
    );
    (acc, rule, false)
}


pub const ASSUMPTIONS: &[&str] = &["reference arithmetic: i128 for integers, IEEE f64 (Rust core) for floats incl. powf/fmod",
            "shift that moves bits out of 32 bits may answer unit or the two's-complement pattern; float // may answer integer or integral float (DESIGN C09)",];
