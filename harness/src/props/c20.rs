//! C20 Programs built into a shared data object do not disturb each other.
//!
//! Several generated programs are built, in every order, into one monitored data object, with runs of
//! already-built programs interleaved between the builds. Recorded per build: its instruction range,
//! jump-entry range and reported entry point. Checked:
//!  * isolation: the program's stream, rebased, is the stream of the same program built alone into a
//!    fresh object (same instructions, jump operands and jump targets relative to its own ranges, data
//!    operands reading back to the same values); so every jump, expression value and data operand
//!    refers to the program's own pieces (or an equal constant);
//!  * no disturbance: after every later build and every run, each earlier program's instructions, jump
//!    entries and constants read back exactly as snapshotted;
//!  * same result: each program, started from the entry its build reported, yields the value (and
//!    step count) it yields when built alone.

use crate::ast::{all_of_size, rand_program, GenCfg, E};
use crate::mon::{Host, Mon};
use crate::pipe::{compile, start, step, Compiled, Fail};
use crate::prog::map_expr;
use crate::props::c01::{host_resolves, inputs};
use crate::run::{run_cases, Acc, Ctx};
use crate::store::{Basic, Simple, Store};
use crate::util::{fnv_str, Json, Rng};
use crate::value::{construct, readback, Mk, V};
use garnish_lang_traits::{GarnishData, GarnishDataType, Instruction as I};

#[derive(Clone, PartialEq, Debug)]
enum Operand {
    None,
    /// jump-table index relative to the program's first entry (None: outside its own entries)
    Jump(Option<usize>),
    /// data operand: what the named value reads back as (expression values rebased)
    Data(Result<V, String>),
    Raw(usize),
}

#[derive(Clone, PartialEq, Debug)]
struct Stream {
    instrs: Vec<(I, Operand)>,
    /// targets of the program's jump entries relative to its first instruction (None: outside)
    jumps: Vec<Option<usize>>,
    entry: Option<usize>,
}

struct Built<D: Store + Mk> {
    c: Compiled<Mon<D>>,
    src: String,
}

fn rebase_v(v: &V, j0: usize, j1: usize) -> V {
    map_expr(v, &|j| if j >= j0 && j < j1 { Some(j - j0) } else { None })
}

fn stream_of<D: Store + Mk>(m: &Mon<D>, c: &Compiled<Mon<D>>) -> Stream {
    let (i0, i1, j0, j1) = (c.instr_start, c.instr_end, c.jump_start, c.jump_end);
    let mut instrs = vec![];
    for i in i0..i1 {
        let (ins, data) = m.get_instruction(i).unwrap_or((I::Invalid, None));
        let op = match (ins, data) {
            (_, None) => Operand::None,
            (I::Put | I::Resolve, Some(a)) => Operand::Data(readback(&m.d, a).map(|v| rebase_v(&v, j0, j1))),
            (I::JumpTo | I::JumpIfTrue | I::JumpIfFalse | I::And | I::Or | I::Reapply, Some(j)) => Operand::Jump(if j >= j0 && j < j1 { Some(j - j0) } else { None }),
            (_, Some(k)) => Operand::Raw(k),
        };
        instrs.push((ins, op));
    }
    let jumps = (j0..j1).map(|j| m.get_from_jump_table(j).and_then(|t| if t >= i0 && t < i1 { Some(t - i0) } else { None })).collect();
    let e = *c.build.jump_index();
    Stream { instrs, jumps, entry: if e >= j0 && e < j1 { Some(e - j0) } else { None } }
}

fn show_op(o: &Operand) -> String {
    match o {
        Operand::None => String::new(),
        Operand::Jump(Some(j)) => format!(" own-jump+{}", j),
        Operand::Jump(None) => " FOREIGN-jump".into(),
        Operand::Data(Ok(v)) => format!(" {}", v.show()),
        Operand::Data(Err(e)) => format!(" <unreadable {}>", e),
        Operand::Raw(k) => format!(" {}", k),
    }
}

/// first difference between a program's stream in the shared object and alone
fn stream_diff(shared: &Stream, alone: &Stream) -> Option<(String, String)> {
    if shared.instrs.len() != alone.instrs.len() {
        return Some(("stream-length".into(), format!("{} instructions in the shared object, {} when built alone", shared.instrs.len(), alone.instrs.len())));
    }
    for (k, (a, b)) in shared.instrs.iter().zip(alone.instrs.iter()).enumerate() {
        if a != b {
            let class = match (&a.1, &b.1) {
                _ if a.0 != b.0 => "instruction",
                (Operand::Jump(None), _) => "foreign-jump-operand",
                (Operand::Jump(_), _) => "jump-operand",
                (Operand::Data(_), _) => "data-operand",
                _ => "operand",
            };
            return Some((format!("stream|{}|{:?}", class, b.0), format!("instruction +{} is {:?}{} in the shared object but {:?}{} when built alone", k, a.0, show_op(&a.1), b.0, show_op(&b.1))));
        }
    }
    if shared.jumps != alone.jumps {
        let k = shared.jumps.iter().zip(alone.jumps.iter()).position(|(a, b)| a != b).unwrap_or(shared.jumps.len().min(alone.jumps.len()));
        let class = if shared.jumps.get(k).map(|x| x.is_none()).unwrap_or(false) { "jump-entry-outside-own-instructions" } else { "jump-entry-target" };
        return Some((format!("stream|{}", class), format!("own jump entry +{} points at {:?} (relative to the program's first instruction) in the shared object but at {:?} when built alone", k, shared.jumps.get(k), alone.jumps.get(k))));
    }
    if shared.entry != alone.entry {
        return Some(("stream|entry-point".into(), format!("reported entry is own jump entry {:?} in the shared object but {:?} when built alone", shared.entry, alone.entry)));
    }
    None
}

#[derive(Clone, PartialEq, Debug)]
enum RunOut {
    Value(Result<V, String>, u64),
    Err(String),
    Panic(String),
    StepLimit,
    Dirty(String),
}

/// run a built program from its reported entry to the end
fn run_built<D: Store + Mk>(m: &mut Mon<D>, c: &Compiled<Mon<D>>, input: &V, max_steps: u64) -> RunOut {
    let (r0, f0, v0) = (m.depth(), m.frames.len(), m.vals.len());
    let ia = match construct(m, input) {
        Ok(a) => a,
        Err(e) => return RunOut::Err(format!("construct input: {}", e)),
    };
    if let Err(e) = start(m, *c.build.jump_index(), ia) {
        return RunOut::Err(e);
    }
    let mut n = 0u64;
    loop {
        if n >= max_steps {
            return RunOut::StepLimit;
        }
        // the cursor must stay inside the program's own instructions
        let pc = m.get_instruction_cursor();
        if pc < c.instr_start || pc >= c.instr_end {
            return RunOut::Dirty(format!("execution left the program: cursor {} outside its instructions {}..{}", pc, c.instr_start, c.instr_end));
        }
        match step(m) {
            Ok(true) => n += 1,
            Ok(false) => {
                n += 1;
                break;
            }
            Err(Fail::Err(_, e)) => {
                // a failed execution is residue too: the host unwinds the stacks and carries on
                m.refresh_top_value();
                // innermost first: the operands pushed since a frame, then that frame
                while m.frames.len() > f0 {
                    let d = m.frames.last().map(|f| f.1).unwrap_or(r0).max(r0);
                    while m.depth() > d {
                        if m.pop_register().ok().flatten().is_none() {
                            break;
                        }
                    }
                    if m.pop_frame().ok().flatten().is_none() {
                        break;
                    }
                }
                while m.depth() > r0 {
                    if m.pop_register().ok().flatten().is_none() {
                        break;
                    }
                }
                while m.vals.len() > v0 {
                    if m.pop_value_stack().is_none() {
                        break;
                    }
                }
                // addresses in messages differ between objects: the class of the error is what is compared
                return RunOut::Err(e.chars().filter(|c| !c.is_ascii_digit()).collect());
            }
            Err(Fail::Panic(_, msg, loc)) => return RunOut::Panic(format!("{} at {}", msg, loc)),
        }
    }
    m.refresh_top_value();
    if m.depth() != r0 || m.frames.len() != f0 {
        return RunOut::Dirty(format!("run ended with {} operands and {} frames, started with {} and {}", m.depth(), m.frames.len(), r0, f0));
    }
    let v = match m.get_current_value() {
        Some(a) => readback(&m.d, a).map(|v| rebase_v(&v, c.jump_start, c.jump_end)),
        None => Err("no current value".into()),
    };
    RunOut::Value(v, n)
}

fn fresh_mon<D: Store + Mk>() -> Mon<D> {
    let mut m: Mon<D> = Mon::fresh();
    m.host = Host { mode: crate::mon::HostMode::Script, resolve: host_resolves(), apply_accept: false, defer_accept: false };
    m.max_instr = 200_000;
    m.max_data = 2_000_000;
    m
}

struct AloneInfo {
    stream: Stream,
    out: RunOut,
}

fn alone<D: Store + Mk>(src: &str, input: &V) -> Option<AloneInfo> {
    let mut m = fresh_mon::<D>();
    let c = compile(src, &mut m).ok()?;
    let stream = stream_of(&m, &c);
    let out = run_built(&mut m, &c, input, 10_000);
    Some(AloneInfo { stream, out })
}

/// snapshot of one program's pieces as they read right now
fn pieces<D: Store + Mk>(m: &Mon<D>, c: &Compiled<Mon<D>>) -> (Vec<(I, Option<usize>)>, Vec<Option<usize>>, Vec<Result<V, String>>) {
    let ins: Vec<(I, Option<usize>)> = (c.instr_start..c.instr_end).map(|i| m.get_instruction(i).unwrap_or((I::Invalid, None))).collect();
    let jumps = (c.jump_start..c.jump_end).map(|j| m.get_from_jump_table(j)).collect();
    let consts = ins
        .iter()
        .filter_map(|(i, d)| match (i, d) {
            (I::Put | I::Resolve, Some(a)) => Some(readback(&m.d, *a)),
            _ => None,
        })
        .collect();
    (ins, jumps, consts)
}

fn case<D: Store + Mk>(progs: &[String], order: &[usize], input: &V, run_between: &[bool], acc: &mut Acc) {
    // programs that do not build and run cleanly on their own are other properties' business
    // (a program that does not even build alone is kept as well: its failed build is residue for the others)
    let mut alones: Vec<Option<AloneInfo>> = vec![];
    for p in progs {
        match alone::<D>(p, input) {
            Some(a) if matches!(a.out, RunOut::Value(..) | RunOut::Err(_)) => {
                if matches!(a.out, RunOut::Err(_)) {
                    acc.count("programs_failing_at_run_time_used_as_residue");
                }
                alones.push(Some(a))
            }
            None => {
                acc.count("programs_failing_to_build_used_as_residue");
                alones.push(None)
            }
            _ => {
                acc.count("program_not_clean_alone_skipped");
                return;
            }
        }
    }
    if alones.iter().all(|a| a.is_none()) {
        return;
    }
    acc.evals += 1;
    let mut m = fresh_mon::<D>();
    let mut built: Vec<(usize, Built<D>)> = vec![];
    let mut snaps: Vec<(Vec<(I, Option<usize>)>, Vec<Option<usize>>, Vec<Result<V, String>>)> = vec![];
    let mut history: Vec<String> = vec![];
    let describe = |history: &Vec<String>| format!("[{}] history: {}", D::NAME, history.join("; "));
    macro_rules! check_undisturbed {
        ($after:expr) => {
            for (k, (pi, b)) in built.iter().enumerate() {
                let now = pieces(&m, &b.c);
                if now != snaps[k] {
                    let what = if now.0 != snaps[k].0 {
                        "instructions"
                    } else if now.1 != snaps[k].1 {
                        "jump-entries"
                    } else {
                        "constants"
                    };
                    acc.violation(
                        format!("disturbed|{}|{}", what, D::NAME),
                        format!("after {} the {} of the earlier program #{} {:?} changed. {}", $after, what, pi, b.src, describe(&history)),
                        Json::obj().with("programs", Json::Arr(progs.iter().map(|s| Json::s(s.clone())).collect())).with("order", Json::Arr(order.iter().map(|x| Json::i(*x as i64)).collect())),
                    );
                    return;
                }
                acc.count("undisturbed_snapshots_compared");
            }
        };
    }
    for (pos, &pi) in order.iter().enumerate() {
        let src = &progs[pi];
        history.push(format!("build #{} {:?}", pi, src));
        let compiled = compile(src, &mut m);
        if alones[pi].is_none() {
            // fails alone: whatever the attempt leaves in the shared object, the earlier programs stay as they were
            m.settle();
            acc.count("failed_builds_in_shared_object");
            if compiled.is_ok() {
                acc.count("builds_in_shared_object_but_not_alone");
            }
            check_undisturbed!(format!("the failed build of #{}", pi));
            continue;
        }
        let c = match compiled {
            Ok(c) => c,
            Err(f) => {
                acc.violation(
                    format!("build-fails-in-shared-object|{}", D::NAME),
                    format!("program #{} {:?} builds alone but not into the shared object: {}. {}", pi, src, f.show(), describe(&history)),
                    Json::obj().with("programs", Json::Arr(progs.iter().map(|s| Json::s(s.clone())).collect())),
                );
                return;
            }
        };
        m.settle();
        check_undisturbed!(format!("building program #{}", pi));
        let st = stream_of(&m, &c);
        acc.add("instructions_compared", st.instrs.len() as u64);
        acc.add("jump_entries_compared", st.jumps.len() as u64);
        if let Some((class, d)) = stream_diff(&st, &alones[pi].as_ref().unwrap().stream) {
            acc.violation(
                format!("{}|{}|{}", class, if pos == 0 { "first" } else { "later" }, D::NAME),
                format!("program #{} {:?} built at position {} of the shared object: {}. {}", pi, src, pos, d, describe(&history)),
                Json::obj().with("programs", Json::Arr(progs.iter().map(|s| Json::s(s.clone())).collect())).with("order", Json::Arr(order.iter().map(|x| Json::i(*x as i64)).collect())),
            );
            return;
        }
        let b = Built { c, src: src.clone() };
        snaps.push(pieces(&m, &b.c));
        built.push((pi, b));
        // an execution of some already-built program between the builds leaves its residue behind
        if run_between.get(pos).cloned().unwrap_or(false) {
            let k = (pos * 7 + pi) % built.len();
            let (qi, q) = (built[k].0, &built[k].1);
            history.push(format!("run #{}", qi));
            let out = run_built(&mut m, &q.c, input, 10_000);
            acc.count("interleaved_runs");
            if out != alones[qi].as_ref().unwrap().out {
                report_run::<D>(acc, progs, order, qi, &q.src, input, &out, &alones[qi].as_ref().unwrap().out, &describe(&history));
                return;
            }
            check_undisturbed!(format!("running program #{}", qi));
        }
    }
    // finally every program from its reported entry, twice round
    for round in 0..2 {
        for k in 0..built.len() {
            let (qi, q) = (built[k].0, &built[k].1);
            history.push(format!("run #{}", qi));
            let out = run_built(&mut m, &q.c, input, 10_000);
            acc.count("final_runs_compared");
            if out != alones[qi].as_ref().unwrap().out {
                report_run::<D>(acc, progs, order, qi, &q.src, input, &out, &alones[qi].as_ref().unwrap().out, &describe(&history));
                return;
            }
        }
        check_undisturbed!(format!("final runs, round {}", round));
    }
}

fn report_run<D: Store>(acc: &mut Acc, progs: &[String], order: &[usize], qi: usize, src: &str, input: &V, got: &RunOut, want: &RunOut, hist: &str) {
    let class = match (got, want) {
        (RunOut::Value(a, _), RunOut::Value(b, _)) if a != b => "value",
        (RunOut::Value(..), RunOut::Value(..)) => "step-count",
        (RunOut::Dirty(_), _) => "left-its-own-code-or-stacks",
        (RunOut::Panic(_), _) => "panic",
        (RunOut::Err(_), _) => "error",
        _ => "outcome",
    };
    acc.violation(
        format!("result|{}|{}", class, D::NAME),
        format!("program #{} {:?} with $ = {} gives {:?} in the shared object but {:?} when built alone. {}", qi, src, input.show(), got, want, hist),
        Json::obj().with("programs", Json::Arr(progs.iter().map(|s| Json::s(s.to_string())).collect())).with("order", Json::Arr(order.iter().map(|x| Json::i(*x as i64)).collect())).with("input", input.json()),
    );
}

fn permutations(n: usize) -> Vec<Vec<usize>> {
    fn go(cur: &mut Vec<usize>, used: &mut Vec<bool>, n: usize, out: &mut Vec<Vec<usize>>) {
        if cur.len() == n {
            out.push(cur.clone());
            return;
        }
        for i in 0..n {
            if !used[i] {
                used[i] = true;
                cur.push(i);
                go(cur, used, n, out);
                cur.pop();
                used[i] = false;
            }
        }
    }
    let mut out = vec![];
    go(&mut vec![], &mut vec![false; n], n, &mut out);
    out
}

pub fn run(ctx: &Ctx) -> (Acc, String, bool) {
    let ins = inputs();
    let seed = ctx.seed;
    let cfg = GenCfg::default();
    // programs with jumps, nested expressions, constants shared between programs, and empty-ish ones
    let fixed: Vec<&str> = vec![
        "5",
        "$ ?> 1 |> 2",
        "{ $ + 1 } <~ 5",
        "(:a = 5, :b = \"text\") ~> { a b }",
        "1 && 2 || 3",
        "{ $ < 4 ?> ^~ ($ + 1) |> $ } <~ 0",
        "5 + 5 ; \"text\" ; { 5 }~~",
        "x [1] ?> { { $ } <~ 2 } <~ 3 |> w",
        "\"text\" 5 :a ()",
        "$ !> { 1 }~~ |> $ ?> { 2 }~~ |> 3",
        // a restart that belongs to the program itself, not to a nested expression
        "$ == () ?> ^~ 5 |> $ \"text\"",
        "$ == 3 ?> ^~ 10 |> ($ == 10 ?> ^~ 11 |> $ * 2)",
        // fails half way through a conversion on one of the stores: residue of a failed execution
        "(\"abcde\" <~ 1..9) ~# \"\"",
        "\"xyz\" (\"abcde\" <~ 2..20) ~# \"\"",
        // builds that fail (an else without a conditional, a dangling separator, a lone operator): what the attempt
        // leaves in the shared object is residue for the programs around it
        "5 |> 6",
        "5 ; ;",
        "1 + (2 |> 3)",
        // a symbol made at run time from text, the same symbol written as a literal, and a symbol rendered as text
        "\"abc\" ~# :x",
        ":abc ~# \"\"",
        "(\"abc\" ~# :x) ~# \"\"",
        "\":abc\" ~# :x",
        // no significant token at all: its entry must still be its own
        "",
        "  @@ nothing here",
    ];
    let mut cache: Vec<Vec<E>> = vec![vec![]];
    let mut small: Vec<String> = vec![];
    for n in 1..=2 {
        small.extend(all_of_size(n, &mut cache).iter().map(|e| e.print()));
    }
    let scripts: Vec<String> = crate::corpus::repo_scripts().into_iter().map(|x| x.1.trim_end().to_string()).collect();
    let fixed_pairs = (fixed.len() * fixed.len()) as u64;
    let fixed_triples: u64 = ctx.pick(200, (fixed.len() * fixed.len() * fixed.len()) as u64);
    let random_total: u64 = ctx.pick(40_000, 2_500_000);
    let acc = run_cases(ctx, fixed_pairs + fixed_triples + random_total, |i, acc| {
        let mut r = Rng::for_case(seed, i);
        let (progs, exhaustive_orders): (Vec<String>, bool) = if i < fixed_pairs {
            acc.nontrivial += 1;
            (vec![fixed[(i / fixed.len() as u64) as usize].to_string(), fixed[(i % fixed.len() as u64) as usize].to_string()], true)
        } else if i < fixed_pairs + fixed_triples {
            acc.nontrivial += 1;
            let j = if fixed_triples as usize == fixed.len().pow(3) { (i - fixed_pairs) as usize } else { r.below(fixed.len().pow(3)) };
            (vec![fixed[j % fixed.len()].to_string(), fixed[(j / fixed.len()) % fixed.len()].to_string(), fixed[j / (fixed.len() * fixed.len())].to_string()], true)
        } else {
            let k = 2 + r.below(3);
            let ps: Vec<String> = (0..k)
                .map(|_| match r.below(7) {
                    0 => (*r.pick(&fixed)).to_string(),
                    1 => r.pick(&small).clone(),
                    2 if !scripts.is_empty() => r.pick(&scripts).clone(),
                    _ => {
                        let depth = 1 + r.below(4);
                        rand_program(&mut r, depth, &cfg).print()
                    }
                })
                .collect();
            acc.distinct.insert(fnv_str(&ps.join("\u{1}")));
            (ps, k <= 3)
        };
        let input = if i < fixed_pairs + fixed_triples { ins[(i % 3) as usize * 2].clone() } else { r.pick(&ins).clone() };
        let orders: Vec<Vec<usize>> = if exhaustive_orders {
            permutations(progs.len())
        } else {
            let all = permutations(progs.len());
            (0..4).map(|_| r.pick(&all).clone()).collect()
        };
        acc.max("programs_in_one_object", progs.len() as u64);
        for (oi, order) in orders.iter().enumerate() {
            // which builds are followed by a run of an already-built program
            let pattern = (i as usize + oi) % 4;
            let run_between: Vec<bool> = (0..order.len()).map(|p| match pattern {
                0 => false,
                1 => true,
                2 => p % 2 == 0,
                _ => p == 0,
            }).collect();
            acc.count("orders_explored");
            case::<Simple>(&progs, order, &input, &run_between, acc);
            case::<Basic>(&progs, order, &input, &run_between, acc);
        }
        if i % 2_003 == 0 {
            acc.sample(Json::s(format!("programs {:?} with $ = {}", progs, input.show())));
        }
    });
    let rule = format!(
        "every ordered pair of {} hand-picked programs (conditionals, nested expressions, logic, loops, sequences, shared constants) and {} triples, in every build order; {} random sequences of 2..4 programs (generated core-language programs, small ASTs, the hand-picked ones, the repository's own tests/scripts) in every order (2..3 programs) or 4 random orders (4 programs); with four interleaving patterns of runs between builds; on both stores. Per build: stream compared, rebased, with the program built alone; earlier programs' instructions, jump entries and constants re-read after every build and run; every program finally run twice from its reported entry and compared (value, step count, staying inside its own instructions, stacks restored) with its run alone.",
        fixed.len(),
        fixed_triples,
        random_total
    );
    (acc, rule, false)
}

pub const ASSUMPTIONS: &[&str] = &[
    "a program is put into a shared object when, built alone, it either fails to build (then only its failed build is replayed in the shared object, as residue) or builds and either runs to a value with its stacks restored or fails with a run-time error (then the same class of error is expected in the shared object, the stacks are unwound through the public pops as a host would, and what the failed run left behind is part of the residue); runs are started the documented way: cursor := jump entry reported by build, input pushed on the value stack",
    "'refers only to its own pieces' is decided by comparing the rebased stream with the stream of the same source built alone: jump operands and jump targets relative to the build's own ranges, data operands by the value they read back as (an interned equal constant is accepted)",
    "expression values in results are compared by their jump entry relative to the program's first entry",
];
