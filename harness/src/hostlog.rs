//! Program-level monitor with a host event log: runs one program on the real pipeline under a
//! scripted (or native) host and compares the final value and the sequence of host callbacks with
//! the reference evaluator's. Shared by C10 (what is evaluated) and C17 (how the host is called).

use crate::ast::E;
use crate::eval::HostEv;
use crate::mon::{Host, HostCall, HostMode, Mon};
use crate::native::{self, NativeCall};
use crate::pipe::Fail;
use crate::prog::{real_in, reference_h, stage_name, RealOutcome, RunCfg};
use crate::run::Acc;
use crate::store::Store;
use crate::util::panic_site;
use crate::value::{Mk, V};
use std::collections::HashMap;

#[derive(Clone)]
pub struct HostCfg {
    pub resolves: HashMap<u64, V>,
    pub apply_accept: bool,
    /// answer through the store's own extension point instead of the wrapper's script
    pub native: bool,
}

pub fn show_ev(e: &HostEv, names: &dyn Fn(u64) -> String) -> String {
    match e {
        HostEv::Resolve(s) => format!("resolve({})", names(*s)),
        HostEv::Apply(n, a) => format!("apply(#{}, {})", n, a.show()),
    }
}

fn kind(e: &HostEv) -> &'static str {
    match e {
        HostEv::Resolve(_) => "resolve",
        HostEv::Apply(..) => "apply",
    }
}

/// how two logs differ: (class, first differing position)
pub fn log_diff(got: &[HostEv], want: &[HostEv]) -> Option<(String, usize)> {
    if got == want {
        return None;
    }
    let pos = got.iter().zip(want.iter()).position(|(a, b)| a != b).unwrap_or(got.len().min(want.len()));
    let count = |xs: &[HostEv], e: &HostEv| xs.iter().filter(|x| *x == e).count();
    for e in got {
        if count(got, e) > count(want, e) {
            // same callback with another argument, or a call that should not have happened
            let same_kind_missing = want.iter().any(|w| kind(w) == kind(e) && count(want, w) > count(got, w));
            return Some((if same_kind_missing { format!("wrong-{}", kind(e)) } else { format!("extra-{}", kind(e)) }, pos));
        }
    }
    for e in want {
        if count(want, e) > count(got, e) {
            return Some((format!("missing-{}", kind(e)), pos));
        }
    }
    Some(("order".to_string(), pos))
}

pub struct Checked {
    pub class: String,
    pub desc: String,
}

/// one program, one input, one store (prepared by `fresh`): None when value and host log agree
pub fn disagreement<D: Store + Mk>(
    e: &E,
    input: &V,
    cfg: &HostCfg,
    fresh: &dyn Fn() -> D,
    max_steps: u64,
    names: &dyn Fn(u64) -> String,
    acc: &mut Acc,
) -> Option<Checked> {
    let src = e.print();
    let r = reference_h(e, input, &cfg.resolves, cfg.apply_accept, 20_000);
    if r.tainted {
        acc.count("outside_pinned_semantics_skipped");
        return None;
    }
    let want = match &r.value {
        Ok(v) => v.clone(),
        Err(_) => {
            acc.count("reference_budget");
            return None;
        }
    };
    let host = if cfg.native {
        native::install(&cfg.resolves, cfg.apply_accept);
        Host { mode: HostMode::Native, resolve: HashMap::new(), apply_accept: false, defer_accept: false }
    } else {
        // a program in which the reference offers nothing to the host's deferred-operation hook runs under a host
        // that would accept one: any call of the hook is then unexpected and shows in the log (and in the value)
        Host { mode: HostMode::Script, resolve: cfg.resolves.clone(), apply_accept: cfg.apply_accept, defer_accept: r.defers == 0 }
    };
    let run = real_in::<D>(Mon::new(fresh()), &src, input, &RunCfg { max_steps, host });
    let native_log = if cfg.native { native::take_log() } else { vec![] };
    acc.evals += 1;
    acc.add("steps_executed", run.steps);
    let tag = format!("{}{}", D::NAME, if cfg.native && !D::NAME.contains("native") { "-native" } else { "" });
    let got_v = match &run.outcome {
        RealOutcome::CompileFail(Fail::Panic(st, msg, loc)) | RealOutcome::RunFail(Fail::Panic(st, msg, loc)) => {
            return Some(Checked {
                class: format!("panic|{}|{}", panic_site(loc), stage_name(st)),
                desc: format!("[{}] {:?} with $ = {} panicked in {}: {} at {}", tag, src, input.show(), stage_name(st), msg, loc),
            });
        }
        RealOutcome::CompileFail(Fail::Err(st, e2)) => {
            return Some(Checked { class: format!("rejected|{}|{}", stage_name(st), tag), desc: format!("[{}] well-formed program {:?} is rejected by {}: {}", tag, src, stage_name(st), e2) });
        }
        RealOutcome::RunFail(Fail::Err(_, e2)) => {
            if want.has_unknown() {
                acc.count("unknown_expected_skipped");
                return None;
            }
            return Some(Checked { class: format!("err|run|{}", tag), desc: format!("[{}] {:?} with $ = {} fails at run time ({}) but means {}", tag, src, input.show(), e2, want.show()) });
        }
        RealOutcome::StepLimit => {
            acc.count("step_limit");
            return None;
        }
        RealOutcome::SetupFail(s) => {
            acc.count("setup_failed");
            acc.seen("setup_failures", s.chars().take(60).collect::<String>());
            return None;
        }
        RealOutcome::Value(Err(e2)) => return Some(Checked { class: format!("unreadable|{}", tag), desc: format!("[{}] {:?}: result unreadable: {}", tag, src, e2) }),
        RealOutcome::Value(Ok(v)) => v.clone(),
    };
    // ---- the host log, as seen at the trait boundary
    let mut got_log: Vec<HostEv> = vec![];
    for c in &run.m.calls {
        match c {
            HostCall::Resolve { sym, answered } => {
                got_log.push(HostEv::Resolve(*sym));
                if !cfg.native && *answered != cfg.resolves.contains_key(sym) {
                    return Some(Checked { class: "harness|answered".into(), desc: format!("[{}] scripted host answered inconsistently for {}", tag, names(*sym)) });
                }
            }
            HostCall::Apply { ext, arg, .. } => match arg {
                Ok(a) => got_log.push(HostEv::Apply(*ext, a.clone())),
                Err(e2) => {
                    return Some(Checked {
                        class: format!("apply-arg-unreadable|{}", tag),
                        desc: format!("[{}] {:?} with $ = {}: the host's apply callback for external #{} received an argument that cannot be read: {}", tag, src, input.show(), ext, e2),
                    })
                }
            },
            HostCall::Defer { op, lt, rt, .. } => {
                acc.count("defer_calls_seen");
                if !cfg.native && r.defers == 0 {
                    return Some(Checked {
                        class: format!("host-log|unexpected-defer|{:?}({:?},{:?})|{}", op, lt, rt, tag),
                        desc: format!("[{}] {:?} with $ = {}: the host's deferred-operation hook was offered {:?} on ({:?}, {:?}) although every operation of this program has a defined result", tag, src, input.show(), op, lt, rt),
                    });
                }
            }
        }
    }
    acc.add("host_events_observed", got_log.len() as u64);
    acc.add("host_events_expected", r.log.len() as u64);
    for ev in &got_log {
        acc.count(&format!("observed_{}_calls", kind(ev)));
    }
    let show_log = |l: &[HostEv]| -> String { format!("[{}]", l.iter().map(|e| show_ev(e, names)).collect::<Vec<_>>().join(", ")) };
    if cfg.native {
        // what reached the store's own callback must be what crossed the trait boundary
        let nl: Vec<HostEv> = native_log
            .iter()
            .filter_map(|c| match c {
                NativeCall::Resolve(s, _) => Some(HostEv::Resolve(*s)),
                NativeCall::Apply(n, Ok(a), _) => Some(HostEv::Apply(*n, a.clone())),
                NativeCall::Apply(n, Err(_), _) => Some(HostEv::Apply(*n, V::Unknown)),
            })
            .collect();
        // SimpleGarnishData exposes no apply hook: only resolves can reach its callback
        let expect_native: Vec<HostEv> = if D::NAME == "simple" { got_log.iter().filter(|e| matches!(e, HostEv::Resolve(_))).cloned().collect() } else { got_log.clone() };
        if nl != expect_native {
            let (k, _) = log_diff(&nl, &expect_native).unwrap_or(("order".into(), 0));
            return Some(Checked {
                class: format!("native-plumbing|{}|{}", tag, k),
                desc: format!("[{}] {:?} with $ = {}: the store's own host callback saw {} but the runtime called {}", tag, src, input.show(), show_log(&nl), show_log(&expect_native)),
            });
        }
        acc.add("native_callback_events", nl.len() as u64);
    }
    if let Some((k, pos)) = log_diff(&got_log, &r.log) {
        return Some(Checked {
            class: format!("host-log|{}|{}", k, tag),
            desc: format!(
                "[{}] {:?} with $ = {} (host resolves {{{}}}, {} externals): host was called {} but the program means {} (first difference at call {})",
                tag,
                src,
                input.show(),
                {
                    let mut ks: Vec<String> = cfg.resolves.iter().map(|(k, v)| format!("{} -> {}", names(*k), v.show())).collect();
                    ks.sort();
                    ks.join(", ")
                },
                if cfg.apply_accept { "accepts" } else { "declines" },
                show_log(&got_log),
                show_log(&r.log),
                pos
            ),
        });
    }
    if want.has_unknown() {
        acc.count("unknown_expected_skipped");
        return None;
    }
    acc.count("values_compared");
    if !run.m.shadow_errors.is_empty() {
        return Some(Checked { class: format!("store-shadow|{}", tag), desc: format!("[{}] {:?}: {}", tag, src, run.m.shadow_errors[0]) });
    }
    if !(got_v == want && got_v.show() == want.show()) {
        return Some(Checked {
            class: format!("wrong-value|{}", tag),
            desc: format!("[{}] {:?} with $ = {} evaluates to {} but means {}", tag, src, input.show(), got_v.show(), want.show()),
        });
    }
    None
}
