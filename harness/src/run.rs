//! Parallel case runner + per-check report (merged across threads, written as JSON for the driver).

use crate::util::{guarded, Json};
use std::collections::{BTreeMap, HashSet};
use std::sync::atomic::{AtomicU64, Ordering};
use std::sync::Mutex;

#[derive(Clone, Copy, PartialEq, Debug)]
pub enum Tier {
    Quick,
    Thorough,
}

#[derive(Clone)]
pub struct Ctx {
    pub prop: String,
    pub tier: Tier,
    pub seed: u64,
    pub threads: usize,
    /// replay mode: run only this case index
    pub only_case: Option<u64>,
    pub progress: Option<String>,
    /// where the watchdog writes the index of a case that exceeded the per-case wall-clock limit
    pub hang_out: Option<String>,
}

impl Ctx {
    pub fn quick(&self) -> bool {
        self.tier == Tier::Quick
    }
    pub fn pick<T>(&self, q: T, t: T) -> T {
        if self.quick() { q } else { t }
    }
}

#[derive(Clone, Debug)]
pub struct Violation {
    pub sig: String,
    pub desc: String,
    pub payload: Json,
    pub case: u64,
    pub count: u64,
}

#[derive(Default)]
pub struct Acc {
    pub evals: u64,
    /// cases counted distinct by construction (exhaustive enumerations)
    pub nontrivial: u64,
    /// hashes of non-trivial randomly generated cases
    pub distinct: HashSet<u64>,
    pub counters: BTreeMap<String, u64>,
    pub sets: BTreeMap<String, HashSet<String>>,
    pub maxes: BTreeMap<String, u64>,
    pub violations: BTreeMap<String, Violation>,
    pub samples: Vec<(u64, Json)>,
    pub inconclusive: Vec<String>,
    pub cur_case: u64,
}

impl Acc {
    pub fn count(&mut self, k: &str) {
        *self.counters.entry(k.to_string()).or_insert(0) += 1;
    }
    pub fn add(&mut self, k: &str, n: u64) {
        *self.counters.entry(k.to_string()).or_insert(0) += n;
    }
    pub fn seen(&mut self, set: &str, item: impl Into<String>) {
        let s = self.sets.entry(set.to_string()).or_default();
        if s.len() < 100_000 {
            s.insert(item.into());
        }
    }
    pub fn max(&mut self, k: &str, v: u64) {
        let e = self.maxes.entry(k.to_string()).or_insert(0);
        if v > *e {
            *e = v;
        }
    }
    pub fn sample(&mut self, j: Json) {
        if self.samples.len() < 6 {
            self.samples.push((self.cur_case, j));
        }
    }
    pub fn violation(&mut self, sig: impl Into<String>, desc: impl Into<String>, payload: Json) {
        let sig = sig.into();
        let case = self.cur_case;
        match self.violations.get_mut(&sig) {
            Some(v) => {
                v.count += 1;
                if case < v.case {
                    v.case = case;
                    v.desc = desc.into();
                    v.payload = payload;
                }
            }
            None => {
                if self.violations.len() < 5000 {
                    self.violations.insert(sig.clone(), Violation { sig, desc: desc.into(), payload, case, count: 1 });
                } else {
                    self.count("violations_dropped_over_cap");
                }
            }
        }
    }
    pub fn merge(&mut self, o: Acc) {
        self.evals += o.evals;
        self.nontrivial += o.nontrivial;
        for h in o.distinct {
            self.distinct.insert(h);
        }
        for (k, v) in o.counters {
            *self.counters.entry(k).or_insert(0) += v;
        }
        for (k, v) in o.sets {
            let e = self.sets.entry(k).or_default();
            for x in v {
                e.insert(x);
            }
        }
        for (k, v) in o.maxes {
            let e = self.maxes.entry(k).or_insert(0);
            if v > *e {
                *e = v;
            }
        }
        for (k, v) in o.violations {
            match self.violations.get_mut(&k) {
                Some(m) => {
                    m.count += v.count;
                    if v.case < m.case {
                        m.case = v.case;
                        m.desc = v.desc;
                        m.payload = v.payload;
                    }
                }
                None => {
                    self.violations.insert(k, v);
                }
            }
        }
        self.samples.extend(o.samples);
        self.samples.sort_by_key(|x| x.0);
        self.samples.truncate(8);
        self.inconclusive.extend(o.inconclusive);
        self.inconclusive.truncate(20);
    }
}

/// Run `f(case_index, acc)` for every index in 0..total on `ctx.threads` threads.
/// Case content must be a function of (ctx.seed, index) only, so a run is reproducible.
pub fn run_cases<F>(ctx: &Ctx, total: u64, f: F) -> Acc
where
    F: Fn(u64, &mut Acc) + Sync,
{
    if let Some(i) = ctx.only_case {
        let mut acc = Acc::default();
        acc.cur_case = i;
        if i < total {
            if let Err((m, l)) = guarded(|| f(i, &mut acc)) {
                acc.inconclusive.push(format!("harness panic in case {}: {} at {}", i, m, l));
            }
        } else {
            acc.inconclusive.push(format!("case {} out of range {}", i, total));
        }
        return acc;
    }
    let next = AtomicU64::new(0);
    let chunk: u64 = (total / (ctx.threads as u64 * 64)).clamp(1, 4096);
    let merged = Mutex::new(Acc::default());
    let progress = ctx.progress.clone();
    // watchdog: (case index, start time in ms since run start) per thread; u64::MAX = idle
    let t0 = std::time::Instant::now();
    let slots: Vec<(AtomicU64, AtomicU64)> = (0..ctx.threads).map(|_| (AtomicU64::new(u64::MAX), AtomicU64::new(0))).collect();
    let done = std::sync::atomic::AtomicBool::new(false);
    let case_limit_ms: u64 = std::env::var("GMON_CASE_LIMIT_S").ok().and_then(|x| x.parse().ok()).unwrap_or(120) * 1000;
    let hang_out = ctx.hang_out.clone();
    let prop = ctx.prop.clone();
    std::thread::scope(|s| {
        {
            let slots = &slots;
            let done = &done;
            s.spawn(move || {
                while !done.load(Ordering::Relaxed) {
                    std::thread::sleep(std::time::Duration::from_millis(500));
                    let now = t0.elapsed().as_millis() as u64;
                    for (idx, st) in slots.iter() {
                        let i = idx.load(Ordering::Relaxed);
                        if i != u64::MAX && now.saturating_sub(st.load(Ordering::Relaxed)) > case_limit_ms {
                            // a single case exceeds the wall-clock watchdog: name it and stop; the driver
                            // re-runs it alone before anything is concluded
                            eprintln!("WATCHDOG case={} exceeded {} ms", i, case_limit_ms);
                            if let Some(p) = &hang_out {
                                let _ = std::fs::write(p, format!("{{\"property\":\"{}\",\"hang_case\":{}}}", prop, i));
                            }
                            std::process::exit(3);
                        }
                    }
                }
            });
        }
        let mut handles = vec![];
        for t in 0..ctx.threads {
            let slot = &slots[t];
            let next = &next;
            let f = &f;
            let merged = &merged;
            let progress = progress.clone();
            let h = std::thread::Builder::new()
                .stack_size(64 << 20)
                .spawn_scoped(s, move || {
                    let mut acc = Acc::default();
                    loop {
                        let start = next.fetch_add(chunk, Ordering::Relaxed);
                        if start >= total {
                            break;
                        }
                        let end = (start + chunk).min(total);
                        for i in start..end {
                            acc.cur_case = i;
                            if let Some(p) = &progress {
                                let _ = std::fs::write(format!("{}.{}", p, t), format!("{}", i));
                            }
                            slot.1.store(t0.elapsed().as_millis() as u64, Ordering::Relaxed);
                            slot.0.store(i, Ordering::Relaxed);
                            let r = guarded(|| f(i, &mut acc));
                            slot.0.store(u64::MAX, Ordering::Relaxed);
                            if let Err((m, l)) = r {
                                if acc.inconclusive.len() < 20 {
                                    acc.inconclusive.push(format!("harness panic in case {}: {} at {}", i, m, l));
                                }
                            }
                        }
                    }
                    merged.lock().unwrap().merge(acc);
                })
                .expect("spawn");
            handles.push(h);
        }
        for h in handles {
            let _ = h.join();
        }
        done.store(true, Ordering::Relaxed);
    });
    merged.into_inner().unwrap()
}

pub fn report_json(ctx: &Ctx, acc: &Acc, rule: &str, exhaustive: bool, assumptions: &[&str], wall_s: f64) -> Json {
    let mut counters = Json::obj();
    for (k, v) in &acc.counters {
        counters.set(k, Json::i(*v as i64));
    }
    for (k, v) in &acc.sets {
        counters.set(&format!("distinct_{}", k), Json::i(v.len() as i64));
    }
    for (k, v) in &acc.maxes {
        counters.set(&format!("max_{}", k), Json::i(*v as i64));
    }
    let mut sets = Json::obj();
    for (k, v) in &acc.sets {
        if v.len() <= 80 {
            let mut xs: Vec<&String> = v.iter().collect();
            xs.sort();
            sets.set(k, Json::Arr(xs.into_iter().map(|s| Json::s(s.clone())).collect()));
        }
    }
    let viol: Vec<Json> = acc
        .violations
        .values()
        .map(|v| {
            Json::obj()
                .with("sig", Json::s(v.sig.clone()))
                .with("desc", Json::s(v.desc.clone()))
                .with("payload", v.payload.clone())
                .with("case", Json::i(v.case as i64))
                .with("count", Json::i(v.count as i64))
        })
        .collect();
    Json::obj()
        .with("property", Json::s(ctx.prop.clone()))
        .with("tier", Json::s(if ctx.quick() { "quick" } else { "thorough" }))
        .with("seed", Json::i(ctx.seed as i64))
        .with("evaluations", Json::i(acc.evals as i64))
        .with("distinct_nontrivial", Json::i((acc.nontrivial + acc.distinct.len() as u64) as i64))
        .with("rule", Json::s(rule))
        .with("exhaustive", Json::Bool(exhaustive))
        .with("counters", counters)
        .with("observed_sets", sets)
        .with("samples", Json::Arr(acc.samples.iter().map(|x| x.1.clone()).collect()))
        .with("violations", Json::Arr(viol))
        .with("inconclusive", Json::Arr(acc.inconclusive.iter().map(|s| Json::s(s.clone())).collect()))
        .with("assumptions", Json::Arr(assumptions.iter().map(|s| Json::s(*s)).collect()))
        .with("wall_s", Json::Float(wall_s))
}
