//! Reference parser: the pinned operator table (DESIGN Appendix D) + a textbook precedence-climbing
//! parser over lexer tokens, producing a canonical S-expression. Oracle of C02.

use garnish_lang_compiler::lex::{LexerToken, TokenType as T};
use garnish_lang_compiler::parse::{Definition as Df, ParseResult};

#[derive(Clone, Debug, PartialEq)]
pub enum Tree {
    Leaf(String, String),
    Un(String, String, Box<Tree>),
    Bin(String, String, Box<Tree>, Option<Box<Tree>>),
    Group(String, Option<Box<Tree>>),
}

impl Tree {
    pub fn sexpr(&self) -> String {
        match self {
            Tree::Leaf(d, t) => format!("{}:{}", d, t),
            Tree::Un(d, t, x) => format!("({}:{} {})", d, t, x.sexpr()),
            Tree::Bin(d, t, l, r) => format!("({}:{} {} {})", d, t, l.sexpr(), r.as_ref().map(|x| x.sexpr()).unwrap_or("_".into())),
            Tree::Group(d, x) => format!("[{} {}]", d, x.as_ref().map(|x| x.sexpr()).unwrap_or("_".into())),
        }
    }
    /// same tree with plain groups `( )` removed (nested expressions stay)
    pub fn strip_groups(&self) -> Tree {
        match self {
            Tree::Leaf(..) => self.clone(),
            Tree::Un(d, t, x) => Tree::Un(d.clone(), t.clone(), Box::new(x.strip_groups())),
            Tree::Bin(d, t, l, r) => Tree::Bin(d.clone(), t.clone(), Box::new(l.strip_groups()), r.as_ref().map(|x| Box::new(x.strip_groups()))),
            Tree::Group(d, x) => {
                if d == "Group" {
                    match x {
                        Some(x) => x.strip_groups(),
                        None => self.clone(),
                    }
                } else {
                    Tree::Group(d.clone(), x.as_ref().map(|x| Box::new(x.strip_groups())))
                }
            }
        }
    }
    /// source text with every application wrapped in parentheses
    pub fn paren(&self) -> String {
        match self {
            Tree::Leaf(_, t) => t.clone(),
            Tree::Un(d, t, x) => {
                if is_suffix_def(d) {
                    format!("({} {})", x.paren(), t)
                } else {
                    format!("({} {})", t, x.paren())
                }
            }
            Tree::Bin(d, t, l, r) if d == "ExpressionSeparator" || d == "Subexpression" => {
                // separators cannot be wrapped: inside `( )` they are white space
                let t = if d == "Subexpression" { "\n\n" } else { t.as_str() };
                match r {
                    Some(r) => format!("{} {} {}", l.paren(), t, r.paren()),
                    None => format!("{} {}", l.paren(), t),
                }
            }
            Tree::Bin(d, t, l, r) => {
                let op = if d == "List" { " ".to_string() } else { format!(" {} ", t) };
                match r {
                    Some(r) => format!("({}{}{})", l.paren(), op, r.paren()),
                    None => format!("({}{})", l.paren(), op),
                }
            }
            Tree::Group(d, x) => {
                let (o, c) = if d == "Group" { ("(", ")") } else { ("{", "}") };
                format!("{}{}{}", o, x.as_ref().map(|x| x.paren()).unwrap_or_default(), c)
            }
        }
    }
}

fn is_suffix_def(d: &str) -> bool {
    matches!(d, "EmptyApply" | "AccessRightInternal" | "AccessLengthInternal" | "SuffixApply")
}

#[derive(Clone, Copy, PartialEq, Debug)]
pub enum Kind {
    Value,
    Prefix,
    Suffix,
    Binary,
    BinaryRtl,
    Open,
    Close,
    Trivia,
    Other,
}

/// (definition name, priority, kind) — the pinned operator table; smaller binds tighter
pub fn table(t: T) -> (&'static str, usize, Kind) {
    use Kind::*;
    match t {
        T::Number => ("Number", 10, Value),
        T::CharList => ("CharList", 10, Value),
        T::ByteList => ("ByteList", 10, Value),
        T::Identifier => ("Identifier", 10, Value),
        T::Symbol => ("Symbol", 10, Value),
        T::UnitLiteral => ("Unit", 10, Value),
        T::Value => ("Value", 10, Value),
        T::True => ("True", 10, Value),
        T::False => ("False", 10, Value),
        T::StartGroup => ("Group", 20, Open),
        T::StartExpression => ("NestedExpression", 20, Open),
        T::EndGroup | T::EndExpression => ("", 0, Close),
        T::Period => ("Access", 30, Binary),
        T::EmptyApply => ("EmptyApply", 40, Suffix),
        T::LeftInternal => ("AccessLeftInternal", 50, Prefix),
        T::RightInternal => ("AccessRightInternal", 60, Suffix),
        T::LengthInternal => ("AccessLengthInternal", 60, Suffix),
        T::TypeOf => ("TypeOf", 69, Prefix),
        T::TypeCast => ("TypeCast", 70, Binary),
        T::AbsoluteValue => ("AbsoluteValue", 75, Prefix),
        T::Opposite => ("Opposite", 75, Prefix),
        T::BitwiseNot => ("BitwiseNot", 75, Prefix),
        T::ExponentialSign => ("ExponentialSign", 80, Binary),
        T::MultiplicationSign => ("MultiplicationSign", 90, Binary),
        T::Division => ("Division", 90, Binary),
        T::IntegerDivision => ("IntegerDivision", 90, Binary),
        T::Remainder => ("Remainder", 90, Binary),
        T::PlusSign => ("Addition", 100, Binary),
        T::Subtraction => ("Subtraction", 100, Binary),
        T::BitwiseLeftShift => ("BitwiseLeftShift", 110, Binary),
        T::BitwiseRightShift => ("BitwiseRightShift", 110, Binary),
        T::BitwiseAnd => ("BitwiseAnd", 111, Binary),
        T::BitwiseXor => ("BitwiseXor", 112, Binary),
        T::BitwiseOr => ("BitwiseOr", 113, Binary),
        T::PrefixIdentifier => ("PrefixApply", 150, Prefix),
        T::SuffixIdentifier => ("SuffixApply", 151, Suffix),
        T::InfixIdentifier => ("InfixApply", 152, Binary),
        T::Range => ("Range", 200, Binary),
        T::StartExclusiveRange => ("StartExclusiveRange", 200, Binary),
        T::EndExclusiveRange => ("EndExclusiveRange", 200, Binary),
        T::ExclusiveRange => ("ExclusiveRange", 200, Binary),
        T::Pair => ("Pair", 210, BinaryRtl),
        T::PartialApply => ("PartialApply", 230, Binary),
        T::Concatenation => ("Concatenation", 240, Binary),
        T::LessThan => ("LessThan", 300, Binary),
        T::LessThanOrEqual => ("LessThanOrEqual", 300, Binary),
        T::GreaterThan => ("GreaterThan", 300, Binary),
        T::GreaterThanOrEqual => ("GreaterThanOrEqual", 300, Binary),
        T::TypeEqual => ("TypeEqual", 400, Binary),
        T::Inequality => ("Inequality", 400, Binary),
        T::Equality => ("Equality", 400, Binary),
        T::Not => ("Not", 400, Prefix),
        T::Tis => ("Tis", 400, Prefix),
        T::And => ("And", 410, Binary),
        T::Xor => ("Xor", 420, Binary),
        T::Or => ("Or", 430, Binary),
        T::Apply => ("Apply", 550, Binary),
        T::ApplyTo => ("ApplyTo", 550, Binary),
        T::Reapply => ("Reapply", 600, Prefix),
        T::JumpIfTrue => ("JumpIfTrue", 700, Binary),
        T::JumpIfFalse => ("JumpIfFalse", 700, Binary),
        T::ElseJump => ("ElseJump", 800, Binary),
        T::Comma => ("CommaList", 900, Binary),
        T::ExpressionSeparator => ("ExpressionSeparator", 990, Binary),
        T::Subexpression => ("Subexpression", 1000, Binary),
        T::Whitespace | T::Annotation | T::LineAnnotation => ("", 0, Trivia),
        _ => ("", 0, Other),
    }
}

pub const LIST_PRIORITY: usize = 220;

struct P<'a> {
    toks: Vec<&'a LexerToken>,
    /// white space seen directly before token i
    gap_before: Vec<bool>,
    pos: usize,
}

/// Parse a token sequence of the expression sub-language (values, prefix / suffix / binary
/// operators, `( )`, `{ }`, implicit space lists). None = outside that sub-language.
pub fn refparse(tokens: &[LexerToken]) -> Option<Tree> {
    let mut toks = vec![];
    let mut gap_before = vec![];
    let mut gap = false;
    // innermost open bracket: inside a plain group `( )` a separator is just white space
    let mut open: Vec<T> = vec![];
    for t in tokens {
        let ty = t.get_token_type();
        match ty {
            T::StartGroup | T::StartExpression => open.push(ty),
            T::EndGroup | T::EndExpression => {
                open.pop();
            }
            _ => {}
        }
        if matches!(ty, T::Subexpression | T::ExpressionSeparator) && open.last() == Some(&T::StartGroup) {
            gap = true;
            continue;
        }
        match table(t.get_token_type()).2 {
            Kind::Trivia => gap = true,
            Kind::Other => return None,
            _ => {
                if matches!(t.get_token_type(), T::Subexpression | T::ExpressionSeparator) {
                    gap = true;
                }
                toks.push(t);
                gap_before.push(gap);
                gap = matches!(t.get_token_type(), T::Subexpression | T::ExpressionSeparator);
            }
        }
    }
    let mut p = P { toks, gap_before, pos: 0 };
    let t = p.expr(usize::MAX)?;
    if p.pos != p.toks.len() {
        return None;
    }
    Some(t)
}

impl<'a> P<'a> {
    fn peek(&self) -> Option<&'a LexerToken> {
        self.toks.get(self.pos).copied()
    }
    fn starts_operand(&self) -> bool {
        match self.peek() {
            Some(t) => matches!(table(t.get_token_type()).2, Kind::Value | Kind::Prefix | Kind::Open),
            None => false,
        }
    }
    fn operand(&mut self) -> Option<Tree> {
        let t = self.peek()?;
        let (d, prio, k) = table(t.get_token_type());
        match k {
            Kind::Value => {
                self.pos += 1;
                Some(Tree::Leaf(d.to_string(), t.get_text().clone()))
            }
            Kind::Prefix => {
                self.pos += 1;
                // only strictly tighter operators bind inside a prefix operator's operand
                let x = self.expr(prio - 1)?;
                Some(Tree::Un(d.to_string(), t.get_text().clone(), Box::new(x)))
            }
            Kind::Open => {
                self.pos += 1;
                let close = if t.get_token_type() == T::StartGroup { T::EndGroup } else { T::EndExpression };
                if self.peek().map(|x| x.get_token_type()) == Some(close) {
                    self.pos += 1;
                    return Some(Tree::Group(d.to_string(), None));
                }
                let inner = self.expr(usize::MAX)?;
                if self.peek().map(|x| x.get_token_type()) != Some(close) {
                    return None;
                }
                self.pos += 1;
                Some(Tree::Group(d.to_string(), Some(Box::new(inner))))
            }
            _ => None,
        }
    }
    /// operators of priority number <= limit bind here
    fn expr(&mut self, limit: usize) -> Option<Tree> {
        let mut left = self.operand()?;
        loop {
            let t = match self.peek() {
                Some(t) => t,
                None => break,
            };
            let (d, prio, k) = table(t.get_token_type());
            match k {
                Kind::Suffix => {
                    if prio > limit {
                        break;
                    }
                    self.pos += 1;
                    left = Tree::Un(d.to_string(), t.get_text().clone(), Box::new(left));
                }
                Kind::Binary | Kind::BinaryRtl => {
                    if prio > limit {
                        break;
                    }
                    self.pos += 1;
                    // optional right operand of a comma (trailing comma)
                    if t.get_token_type() == T::Comma && !self.starts_operand() {
                        left = Tree::Bin(d.to_string(), t.get_text().clone(), Box::new(left), None);
                        continue;
                    }
                    let rl = if k == Kind::BinaryRtl { prio } else { prio - 1 };
                    let mut right = self.expr(rl)?;
                    if d == "Access" {
                        if let Tree::Leaf(dd, tt) = &right {
                            if dd == "Identifier" {
                                right = Tree::Leaf("Property".into(), tt.clone());
                            }
                        }
                    }
                    let text = if d == "Subexpression" { "<blank line>".to_string() } else { t.get_text().clone() };
                    left = Tree::Bin(d.to_string(), text, Box::new(left), Some(Box::new(right)));
                }
                Kind::Value | Kind::Prefix | Kind::Open => {
                    // two operands separated by white space: implicit space list
                    if !self.gap_before[self.pos] || LIST_PRIORITY > limit {
                        if !self.gap_before[self.pos] {
                            return None;
                        }
                        break;
                    }
                    let right = self.expr(LIST_PRIORITY - 1)?;
                    left = Tree::Bin("List".into(), "".into(), Box::new(left), Some(Box::new(right)));
                }
                _ => break,
            }
        }
        Some(left)
    }
}

/// canonical form of the real parse result
pub fn actual_tree(p: &ParseResult) -> Result<Tree, String> {
    let nodes = p.get_nodes();
    if nodes.is_empty() {
        return Err("empty".into());
    }
    fn go(nodes: &Vec<garnish_lang_compiler::parse::ParseNode>, i: usize, depth: usize) -> Result<Tree, String> {
        if depth > 10_000 || i >= nodes.len() {
            return Err("malformed".into());
        }
        let n = &nodes[i];
        let d = format!("{:?}", n.get_definition());
        let text = if n.get_definition() == Df::Subexpression { "<blank line>".to_string() } else { n.get_lex_token().get_text().clone() };
        let l = match n.get_left() {
            Some(x) => Some(go(nodes, x, depth + 1)?),
            None => None,
        };
        let r = match n.get_right() {
            Some(x) => Some(go(nodes, x, depth + 1)?),
            None => None,
        };
        Ok(match n.get_definition() {
            Df::Group | Df::NestedExpression => {
                if l.is_some() {
                    return Err(format!("{} with a left child", d));
                }
                Tree::Group(d, r.map(Box::new))
            }
            Df::List => match (l, r) {
                (Some(l), r) => Tree::Bin("List".into(), "".into(), Box::new(l), r.map(Box::new)),
                _ => return Err("list node without left".into()),
            },
            _ => match (l, r) {
                (None, None) => Tree::Leaf(d, text),
                (Some(l), None) => {
                    if is_suffix_def(&d) {
                        Tree::Un(d, text, Box::new(l))
                    } else {
                        Tree::Bin(d, text, Box::new(l), None)
                    }
                }
                (None, Some(r)) => Tree::Un(d, text, Box::new(r)),
                (Some(l), Some(r)) => Tree::Bin(d, text, Box::new(l), Some(Box::new(r))),
            },
        })
    }
    go(nodes, p.get_root(), 0)
}
