//! `V`: reference value. `readback` turns an address into a `V` through GarnishData getters only;
//! `construct` builds a `V` inside a store through its public add_* API.

use crate::store::{Basic, Num, Simple, Store};
use crate::util::Json;
use garnish_lang_simple_data::{BasicData, DataError, SimpleNumber};
use garnish_lang_traits::{Extents, GarnishData, GarnishDataType, SymbolListPart, TypeConstants};

#[derive(Clone, Debug)]
pub enum V {
    Unit,
    True,
    False,
    Int(i32),
    Float(f64),
    Char(char),
    Byte(u8),
    Sym(u64),
    Type(GarnishDataType),
    SymList(Vec<SymPart>),
    CharList(String),
    ByteList(Vec<u8>),
    Pair(Box<V>, Box<V>),
    List(Vec<V>),
    Concat(Box<V>, Box<V>),
    Range(Box<V>, Box<V>),
    Slice(Box<V>, Box<V>),
    Partial(Box<V>, Box<V>),
    /// expression value: jump-table index when read back, AST id in reference values
    Expr(usize),
    External(usize),
    /// reference evaluator: outside the pinned core semantics; never compared
    Unknown,
}

#[derive(Clone, Debug, PartialEq)]
pub enum SymPart {
    Sym(u64),
    Num(V),
}

impl PartialEq for V {
    fn eq(&self, o: &V) -> bool {
        use V::*;
        match (self, o) {
            (Unit, Unit) | (True, True) | (False, False) => true,
            (Int(a), Int(b)) => a == b,
            (Float(a), Float(b)) => a.to_bits() == b.to_bits() || (a.is_nan() && b.is_nan()),
            (Char(a), Char(b)) => a == b,
            (Byte(a), Byte(b)) => a == b,
            (Sym(a), Sym(b)) => a == b,
            (Type(a), Type(b)) => a == b,
            (SymList(a), SymList(b)) => a == b,
            (CharList(a), CharList(b)) => a == b,
            (ByteList(a), ByteList(b)) => a == b,
            (Pair(a, b), Pair(c, d))
            | (Concat(a, b), Concat(c, d))
            | (Range(a, b), Range(c, d))
            | (Slice(a, b), Slice(c, d))
            | (Partial(a, b), Partial(c, d)) => a == c && b == d,
            (List(a), List(b)) => a == b,
            (Expr(a), Expr(b)) => a == b,
            (External(a), External(b)) => a == b,
            _ => false,
        }
    }
}

impl V {
    pub fn int(i: i32) -> V {
        V::Int(i)
    }
    pub fn str(s: &str) -> V {
        V::CharList(s.to_string())
    }
    pub fn sym(name: &str) -> V {
        V::Sym(garnish_lang_simple_data::symbol_value(name))
    }
    pub fn pair(a: V, b: V) -> V {
        V::Pair(Box::new(a), Box::new(b))
    }
    pub fn boolean(b: bool) -> V {
        if b { V::True } else { V::False }
    }
    pub fn num(n: SimpleNumber) -> V {
        match n {
            SimpleNumber::Integer(i) => V::Int(i),
            SimpleNumber::Float(f) => V::Float(f),
        }
    }
    pub fn as_num(&self) -> Option<SimpleNumber> {
        match self {
            V::Int(i) => Some(SimpleNumber::Integer(*i)),
            V::Float(f) => Some(SimpleNumber::Float(*f)),
            _ => None,
        }
    }
    pub fn type_of(&self) -> GarnishDataType {
        use GarnishDataType as T;
        match self {
            V::Unit => T::Unit,
            V::True => T::True,
            V::False => T::False,
            V::Int(_) | V::Float(_) => T::Number,
            V::Char(_) => T::Char,
            V::Byte(_) => T::Byte,
            V::Sym(_) => T::Symbol,
            V::Type(_) => T::Type,
            V::SymList(_) => T::SymbolList,
            V::CharList(_) => T::CharList,
            V::ByteList(_) => T::ByteList,
            V::Pair(..) => T::Pair,
            V::List(_) => T::List,
            V::Concat(..) => T::Concatenation,
            V::Range(..) => T::Range,
            V::Slice(..) => T::Slice,
            V::Partial(..) => T::Partial,
            V::Expr(_) => T::Expression,
            V::External(_) => T::External,
            V::Unknown => T::Invalid,
        }
    }
    pub fn has_unknown(&self) -> bool {
        match self {
            V::Unknown => true,
            V::Pair(a, b) | V::Concat(a, b) | V::Range(a, b) | V::Slice(a, b) | V::Partial(a, b) => a.has_unknown() || b.has_unknown(),
            V::List(xs) => xs.iter().any(|x| x.has_unknown()),
            V::SymList(ps) => ps.iter().any(|p| matches!(p, SymPart::Num(v) if v.has_unknown())),
            _ => false,
        }
    }
    pub fn is_truthy(&self) -> bool {
        !matches!(self, V::Unit | V::False)
    }
    /// flat item sequence of a list / concatenation (lists inside a concatenation are spliced, as
    /// the concatenation iterators of both stores do); any other value is one item
    pub fn flat_items(&self) -> Vec<&V> {
        let mut out = vec![];
        fn go<'a>(v: &'a V, out: &mut Vec<&'a V>, top: bool) {
            match v {
                V::Concat(a, b) => {
                    go(a, out, false);
                    go(b, out, false);
                }
                V::List(xs) if !top || true => {
                    for x in xs {
                        out.push(x);
                    }
                }
                o => out.push(o),
            }
        }
        go(self, &mut out, true);
        out
    }
    pub fn show(&self) -> String {
        match self {
            V::Unit => "()".into(),
            V::True => "$?".into(),
            V::False => "$!".into(),
            V::Int(i) => format!("{}", i),
            V::Float(f) => format!("{:?}f", f),
            V::Char(c) => format!("Char({:?})", c),
            V::Byte(b) => format!("Byte({})", b),
            V::Sym(s) => format!("Sym({:x})", s),
            V::Type(t) => format!("Type({:?})", t),
            V::SymList(ps) => format!(
                "SymList[{}]",
                ps.iter()
                    .map(|p| match p {
                        SymPart::Sym(s) => format!("{:x}", s),
                        SymPart::Num(n) => n.show(),
                    })
                    .collect::<Vec<_>>()
                    .join(".")
            ),
            V::CharList(s) => format!("{:?}", s),
            V::ByteList(b) => format!("Bytes{:?}", b),
            V::Pair(a, b) => format!("({} = {})", a.show(), b.show()),
            V::List(xs) => format!("[{}]", xs.iter().map(|x| x.show()).collect::<Vec<_>>().join(", ")),
            V::Concat(a, b) => format!("({} <> {})", a.show(), b.show()),
            V::Range(a, b) => format!("Range({}..{})", a.show(), b.show()),
            V::Slice(a, b) => format!("Slice({} ~ {})", a.show(), b.show()),
            V::Partial(a, b) => format!("Partial({} ~ {})", a.show(), b.show()),
            V::Expr(i) => format!("Expr#{}", i),
            V::External(i) => format!("External#{}", i),
            V::Unknown => "<?>".into(),
        }
    }
    pub fn json(&self) -> Json {
        Json::s(self.show())
    }
}

pub fn all_types() -> Vec<GarnishDataType> {
    use GarnishDataType as T;
    vec![
        T::Unit,
        T::Number,
        T::Type,
        T::Char,
        T::CharList,
        T::Byte,
        T::ByteList,
        T::Symbol,
        T::SymbolList,
        T::Pair,
        T::Range,
        T::Concatenation,
        T::Slice,
        T::Partial,
        T::List,
        T::Expression,
        T::External,
        T::True,
        T::False,
    ]
}

// ------------------------------------------------------------------------------------ readback

pub const RB_DEPTH: usize = 48;

fn full_extents() -> Extents<Num> {
    Extents::new(Num::zero(), Num::max_value())
}

/// Read the value at `addr` back through getters only. `Err` carries a description of an
/// inconsistency or of a getter that failed; both are observations, not harness errors.
pub fn readback<D: GarnishData<Error = DataError, Symbol = u64, Byte = u8, Char = char, Number = SimpleNumber, Size = usize>>(
    d: &D,
    addr: usize,
) -> Result<V, String> {
    RB_NODES.with(|c| c.set(0));
    rb(d, addr, 0)
}

thread_local! {
    /// nodes visited by the current read-back: a value that shares sub-values (a DAG) is a tree of
    /// exponential size when walked, so every read-back is cut off at RB_MAX_NODES
    static RB_NODES: std::cell::Cell<u64> = std::cell::Cell::new(0);
}
const RB_MAX_NODES: u64 = 200_000;

fn rb<D: GarnishData<Error = DataError, Symbol = u64, Byte = u8, Char = char, Number = SimpleNumber, Size = usize>>(
    d: &D,
    addr: usize,
    depth: usize,
) -> Result<V, String> {
    if depth > RB_DEPTH {
        return Err(format!("readback depth limit at addr {}", addr));
    }
    let seen = RB_NODES.with(|c| {
        c.set(c.get() + 1);
        c.get()
    });
    if seen > RB_MAX_NODES {
        return Err(format!("readback size limit at addr {}", addr));
    }
    let e = |what: &str, err: DataError| format!("{}({}) failed: {}", what, addr, err);
    let t = d.get_data_type(addr).map_err(|x| e("get_data_type", x))?;
    use GarnishDataType as T;
    Ok(match t {
        T::Unit => V::Unit,
        T::True => V::True,
        T::False => V::False,
        T::Number => V::num(d.get_number(addr).map_err(|x| e("get_number", x))?),
        T::Type => V::Type(d.get_type(addr).map_err(|x| e("get_type", x))?),
        T::Char => V::Char(d.get_char(addr).map_err(|x| e("get_char", x))?),
        T::Byte => V::Byte(d.get_byte(addr).map_err(|x| e("get_byte", x))?),
        T::Symbol => V::Sym(d.get_symbol(addr).map_err(|x| e("get_symbol", x))?),
        T::Expression => V::Expr(d.get_expression(addr).map_err(|x| e("get_expression", x))?),
        T::External => V::External(d.get_external(addr).map_err(|x| e("get_external", x))?),
        T::CharList => {
            let it = d.get_char_list_iter(addr, full_extents()).map_err(|x| e("get_char_list_iter", x))?;
            V::CharList(it.collect())
        }
        T::ByteList => {
            let it = d.get_byte_list_iter(addr, full_extents()).map_err(|x| e("get_byte_list_iter", x))?;
            V::ByteList(it.collect())
        }
        T::SymbolList => {
            let it = d.get_symbol_list_iter(addr, full_extents()).map_err(|x| e("get_symbol_list_iter", x))?;
            V::SymList(
                it.map(|p| match p {
                    SymbolListPart::Symbol(s) => SymPart::Sym(s),
                    SymbolListPart::Number(n) => SymPart::Num(V::num(n)),
                })
                .collect(),
            )
        }
        T::Pair => {
            let (l, r) = d.get_pair(addr).map_err(|x| e("get_pair", x))?;
            V::Pair(Box::new(rb(d, l, depth + 1)?), Box::new(rb(d, r, depth + 1)?))
        }
        T::Concatenation => {
            let (l, r) = d.get_concatenation(addr).map_err(|x| e("get_concatenation", x))?;
            V::Concat(Box::new(rb(d, l, depth + 1)?), Box::new(rb(d, r, depth + 1)?))
        }
        T::Range => {
            let (l, r) = d.get_range(addr).map_err(|x| e("get_range", x))?;
            V::Range(Box::new(rb(d, l, depth + 1)?), Box::new(rb(d, r, depth + 1)?))
        }
        T::Slice => {
            let (l, r) = d.get_slice(addr).map_err(|x| e("get_slice", x))?;
            V::Slice(Box::new(rb(d, l, depth + 1)?), Box::new(rb(d, r, depth + 1)?))
        }
        T::Partial => {
            let (l, r) = d.get_partial(addr).map_err(|x| e("get_partial", x))?;
            V::Partial(Box::new(rb(d, l, depth + 1)?), Box::new(rb(d, r, depth + 1)?))
        }
        T::List => {
            let n = d.get_list_len(addr).map_err(|x| e("get_list_len", x))?;
            if n > 100_000 {
                return Err(format!("list at {} claims length {}", addr, n));
            }
            let it: Vec<usize> = d.get_list_item_iter(addr, full_extents()).map_err(|x| e("get_list_item_iter", x))?.collect();
            if it.len() != n {
                return Err(format!("list at {}: get_list_len={} but iterator yields {}", addr, n, it.len()));
            }
            let mut xs = Vec::with_capacity(n);
            for a in it {
                xs.push(rb(d, a, depth + 1)?);
            }
            V::List(xs)
        }
        T::Invalid | T::Custom => return Err(format!("addr {} has non-language type {:?}", addr, t)),
    })
}

// ------------------------------------------------------------------------------------ construct

/// Store-specific constructors for values that have no trait-level constructor.
pub trait Mk: Store {
    fn mk_char_list(&mut self, s: &str) -> Result<usize, DataError>;
    fn mk_byte_list(&mut self, b: &[u8]) -> Result<usize, DataError>;
}

impl Mk for Simple {
    fn mk_char_list(&mut self, s: &str) -> Result<usize, DataError> {
        self.start_char_list()?;
        for c in s.chars() {
            self.add_to_char_list(c)?;
        }
        self.end_char_list()
    }
    fn mk_byte_list(&mut self, b: &[u8]) -> Result<usize, DataError> {
        self.start_byte_list()?;
        for x in b {
            self.add_to_byte_list(*x)?;
        }
        self.end_byte_list()
    }
}

impl Mk for Basic {
    fn mk_char_list(&mut self, s: &str) -> Result<usize, DataError> {
        let n = s.chars().count();
        let start = self.push_to_data_block(BasicData::CharList(n))?;
        for c in s.chars() {
            self.push_to_data_block(BasicData::Char(c))?;
        }
        Ok(start)
    }
    fn mk_byte_list(&mut self, b: &[u8]) -> Result<usize, DataError> {
        let start = self.push_to_data_block(BasicData::ByteList(b.len()))?;
        for x in b {
            self.push_to_data_block(BasicData::Byte(*x))?;
        }
        Ok(start)
    }
}

impl<D: Mk> Mk for crate::mon::Mon<D> {
    fn mk_char_list(&mut self, s: &str) -> Result<usize, DataError> {
        self.d.mk_char_list(s)
    }
    fn mk_byte_list(&mut self, b: &[u8]) -> Result<usize, DataError> {
        self.d.mk_byte_list(b)
    }
}

pub fn construct<D: Mk>(d: &mut D, v: &V) -> Result<usize, DataError> {
    Ok(match v {
        V::Unit => d.add_unit()?,
        V::True => d.add_true()?,
        V::False => d.add_false()?,
        V::Int(i) => d.add_number(SimpleNumber::Integer(*i))?,
        V::Float(f) => d.add_number(SimpleNumber::Float(*f))?,
        V::Char(c) => d.add_char(*c)?,
        V::Byte(b) => d.add_byte(*b)?,
        V::Sym(s) => d.add_symbol(*s)?,
        V::Type(t) => d.add_type(*t)?,
        V::Expr(i) => d.add_expression(*i)?,
        V::External(i) => d.add_external(*i)?,
        V::CharList(s) => d.mk_char_list(s)?,
        V::ByteList(b) => d.mk_byte_list(b)?,
        V::SymList(ps) => {
            // built by merging, the only trait-level way; needs >= 2 parts
            let mut addrs = vec![];
            for p in ps {
                addrs.push(match p {
                    SymPart::Sym(s) => d.add_symbol(*s)?,
                    SymPart::Num(n) => construct(d, n)?,
                });
            }
            if addrs.len() < 2 {
                return Err(DataError::from("verif: symbol list needs two parts".to_string()));
            }
            let mut cur = d.merge_to_symbol_list(addrs[0], addrs[1])?;
            for a in &addrs[2..] {
                cur = d.merge_to_symbol_list(cur, *a)?;
            }
            cur
        }
        V::Pair(a, b) => {
            let l = construct(d, a)?;
            let r = construct(d, b)?;
            d.add_pair((l, r))?
        }
        V::Concat(a, b) => {
            let l = construct(d, a)?;
            let r = construct(d, b)?;
            d.add_concatenation(l, r)?
        }
        V::Range(a, b) => {
            let l = construct(d, a)?;
            let r = construct(d, b)?;
            d.add_range(l, r)?
        }
        V::Slice(a, b) => {
            let l = construct(d, a)?;
            let r = construct(d, b)?;
            d.add_slice(l, r)?
        }
        V::Partial(a, b) => {
            let l = construct(d, a)?;
            let r = construct(d, b)?;
            d.add_partial(l, r)?
        }
        V::List(xs) => {
            let mut addrs = vec![];
            for x in xs {
                addrs.push(construct(d, x)?);
            }
            let mut li = d.start_list(addrs.len())?;
            for a in addrs {
                li = d.add_to_list(li, a)?;
            }
            d.end_list(li)?
        }
        V::Unknown => return Err(DataError::from("verif: cannot construct Unknown".to_string())),
    })
}

/// like `construct`, but every sub-value that occurs more than once is built once and referenced from each place
pub fn construct_shared<D: Mk>(d: &mut D, v: &V, memo: &mut std::collections::HashMap<String, usize>) -> Result<usize, DataError> {
    let key = v.show();
    if let Some(a) = memo.get(&key) {
        return Ok(*a);
    }
    let a = match v {
        V::Pair(x, y) => {
            let l = construct_shared(d, x, memo)?;
            let r = construct_shared(d, y, memo)?;
            d.add_pair((l, r))?
        }
        V::Concat(x, y) => {
            let l = construct_shared(d, x, memo)?;
            let r = construct_shared(d, y, memo)?;
            d.add_concatenation(l, r)?
        }
        V::List(xs) => {
            let mut addrs = vec![];
            for x in xs {
                addrs.push(construct_shared(d, x, memo)?);
            }
            let mut li = d.start_list(addrs.len())?;
            for a in addrs {
                li = d.add_to_list(li, a)?;
            }
            d.end_list(li)?
        }
        o => construct(d, o)?,
    };
    memo.insert(key, a);
    Ok(a)
}
