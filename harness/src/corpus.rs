//! Input corpora for the compile-pipeline sweeps (C03–C07): bounded-exhaustive token-class
//! sequences (DESIGN Appendix B), random token soups, raw character soups, scaling families.

use crate::util::Rng;

/// one class per behaviourally distinct treatment in get_definition / check_composition / build
pub const CLASSES: [(&str, &[&str]); 33] = [
    ("value", &["5", "\"a\"", ":s", "$", "()", "$?", "2.5", "'b'", "( )"]),
    ("identifier", &["x", "abc"]),
    ("terminator", &[";;"]),
    ("binary", &["+", ".", "==", "<>", "..", "~#", "*", "<", "&", "^^", "#="]),
    ("pair", &["="]),
    ("apply", &["<~"]),
    ("applyto", &["~>"]),
    ("partial", &["~"]),
    ("logical", &["&&", "||"]),
    ("conditional", &["?>", "!>"]),
    ("else", &["|>"]),
    ("comma", &[","]),
    ("infix-id", &["`f`"]),
    ("prefix", &["--", "!!", "#", "_.", "++", "!", "??"]),
    ("reapply", &["^~"]),
    ("prefix-id", &["f`"]),
    ("suffix", &["~~", "._", ".|"]),
    ("suffix-id", &["`f"]),
    ("(", &["("]),
    (")", &[")"]),
    ("{", &["{"]),
    ("}", &["}"]),
    ("[", &["["]),
    ("]", &["]"]),
    ("blank-line", &["\n\n"]),
    ("separator", &[";"]),
    ("annotation", &["@a"]),
    ("line-annotation", &["@@ a\n"]),
    ("newline", &["\n"]),
    ("property-chain", &[".x"]),
    ("number-access", &[".1"]),
    ("string-multi", &["\"\"\"q\"\"\""]),
    ("symbol-id", &["a:b"]),
];

pub const GAPS: [&str; 3] = ["", " ", " @a "];

/// number of sequences of exactly `len` classes with `gaps` gap fillers between adjacent tokens
pub fn seq_count(len: usize, gaps: usize) -> u64 {
    let c = CLASSES.len() as u64;
    c.pow(len as u32) * (gaps as u64).pow(len.saturating_sub(1) as u32)
}

/// the `code`-th sequence; `alt` picks alternative spellings (0 = first spelling of each class)
pub fn seq(len: usize, gaps: usize, mut code: u64, alt: &mut Option<&mut Rng>) -> (String, Vec<&'static str>) {
    let c = CLASSES.len() as u64;
    let mut s = String::new();
    let mut names = vec![];
    for i in 0..len {
        let k = (code % c) as usize;
        code /= c;
        let sp = CLASSES[k].1;
        let text = match alt {
            Some(r) => sp[r.below(sp.len())],
            None => sp[0],
        };
        if i > 0 {
            let g = (code % gaps as u64) as usize;
            code /= gaps as u64;
            s.push_str(GAPS[g]);
        }
        s.push_str(text);
        names.push(CLASSES[k].0);
    }
    (s, names)
}

pub fn token_soup(r: &mut Rng, max_tokens: usize) -> String {
    let n = 1 + r.below(max_tokens);
    let mut s = String::new();
    let mut depth: Vec<char> = vec![];
    for _ in 0..n {
        // bias towards well-nested brackets so that deeper stages are reached
        let k = r.below(CLASSES.len() + 6);
        let text: String = if k >= CLASSES.len() {
            match r.below(3) {
                0 => {
                    let o = *r.pick(&['(', '{', '[']);
                    depth.push(o);
                    o.to_string()
                }
                1 => match depth.pop() {
                    Some('(') => ")".into(),
                    Some('{') => "}".into(),
                    Some('[') => "]".into(),
                    _ => "5".into(),
                },
                _ => (*r.pick::<&str>(&["5", "x", "1 2", "a = 1", "$"])).to_string(),
            }
        } else {
            let sp = CLASSES[k].1;
            sp[r.below(sp.len())].to_string()
        };
        s.push_str(&text);
        match r.below(6) {
            0 => {}
            1 => s.push_str("  "),
            2 => s.push('\n'),
            3 => s.push_str(" @a "),
            _ => s.push(' '),
        }
    }
    if r.chance(2, 3) {
        while let Some(o) = depth.pop() {
            s.push(match o {
                '(' => ')',
                '{' => '}',
                _ => ']',
            });
        }
    }
    s
}

pub fn char_soup(r: &mut Rng, max: usize) -> String {
    const ALPHA: [char; 48] = [
        'a', 'Z', '0', '9', '_', ':', '.', ' ', '\n', '\t', '\r', '"', '\'', '\\', '@', '`', '+', '-', '*', '/', '%', '<', '>', '~', '$', '?', '!', '|', '=', ';', '(', ')', '{', '}', '[', ']', ',', '^', '#', '&', 'é',
        '😀', '§', '\0', '\u{1}', '\u{7f}', '\u{a0}', '²',
    ];
    let n = r.below(max + 1);
    (0..n).map(|_| *r.pick(&ALPHA)).collect()
}

/// scaling families: `n` copies of a construct; returns (name, source)
pub const FAMILIES: [&str; 14] = [
    "add-chain",
    "pair-chain",
    "right-nested-groups",
    "left-nested-groups",
    "nested-expressions",
    "space-list",
    "comma-list",
    "subexpressions",
    "else-chain",
    "long-string",
    "long-number",
    "prefix-chain",
    "suffix-chain",
    "side-effects",
];

pub fn family(kind: usize, n: usize) -> String {
    match FAMILIES[kind] {
        "add-chain" => format!("1{}", " + 1".repeat(n)),
        "pair-chain" => format!("1{}", " = 1".repeat(n)),
        "right-nested-groups" => format!("{}1{}", "(1 + ".repeat(n), ")".repeat(n)),
        "left-nested-groups" => format!("{}1{}", "(".repeat(n), " + 1)".repeat(n)),
        "nested-expressions" => format!("{}1{}", "{ ".repeat(n), " }".repeat(n)),
        "space-list" => format!("1{}", " 1".repeat(n)),
        "comma-list" => format!("1{}", ", 1".repeat(n)),
        "subexpressions" => format!("1{}", "\n\n1".repeat(n)),
        "else-chain" => format!("{}9", "$ == 1 ?> 2 |> ".repeat(n)),
        "long-string" => format!("\"{}\"", "aé".repeat(n)),
        "long-number" => format!("{}", "1".repeat(n.min(4000))),
        "prefix-chain" => format!("{}1", "-- ".repeat(n)),
        "suffix-chain" => format!("{{ 1 }}{}", " ~~".repeat(n)),
        "side-effects" => format!("1{}", " [2]".repeat(n)),
        _ => unreachable!(),
    }
}

/// the repository's own script files (tests/scripts/**/*.garnish): realistic multi-line layouts.
/// Read from /repo's working tree at run time; absent directory = empty corpus.
pub fn repo_scripts() -> Vec<(String, String)> {
    fn walk(dir: &std::path::Path, out: &mut Vec<(String, String)>) {
        let mut entries: Vec<_> = match std::fs::read_dir(dir) {
            Ok(e) => e.filter_map(|x| x.ok()).map(|x| x.path()).collect(),
            Err(_) => return,
        };
        entries.sort();
        for p in entries {
            if p.is_dir() {
                walk(&p, out);
            } else if p.extension().map(|e| e == "garnish").unwrap_or(false) {
                if let Ok(text) = std::fs::read_to_string(&p) {
                    out.push((p.display().to_string(), text));
                }
            }
        }
    }
    let root = std::env::var("GMON_REPO").unwrap_or_else(|_| "/repo".to_string());
    let mut out = vec![];
    walk(&std::path::Path::new(&root).join("tests/scripts"), &mut out);
    out
}

/// hostile literals: char-list / byte-list / number tokens assembled from escape, code-point and digit
/// fragments (valid, boundary and malformed), alone or inside a small program
pub fn literal_soup(r: &mut Rng) -> String {
    const FRAG: [&str; 54] = [
        "a", "é", "😀", " ", "\\n", "\\t", "\\r", "\\0", "\\\\", "\\\"", "\\'", "\\q", "\\", "\\u{41}", "\\u{}", "\\u{D800}", "\\u{DFFF}", "\\u{DBFF}", "\\u{D7FF}", "\\u{E000}", "\\u{10FFFF}",
        "\\u{110000}", "\\u{FFFFFFFF}", "\\u{7FFFFFFF}", "\\u{80000000}", "\\u{-1}", "\\u{1.5}", "\\u{zz}", "\\u{41", "\\u41}", "\\u{{41}}", "\\u{0041 }", "\\u", "{", "}", "\n", "\t", "'", "\"\"", "0",
        "255", "256", "-1", "02_11", "1e5", "999999999999", "\\u{0}", "\\u{d800}", "\\u{FFFF}", "\\u{1_0}", "_", ".", "\\u{0٣_41}", "0٣_1",
    ];
    const NUMS: [&str; 47] = [
        "0", "00", "2147483647", "2147483648", "99999999999999999999", "1_000", "1__0", "1_", "02_1111", "02_2", "016_FF", "016_fg", "036_zz", "037_1", "01_0", "00_0", "0_5", "08_77", "010_9", "020_11", "1.5", "1.", "1.5.5",
        "1e5", "1e", "1e+5", "1e-5", "1e999", "1.5e3", "0.0000001", "1_0.5", "02_1.1", "9.9e307", "1e308", "4e-324", "0e0", "12abc", "1a", "0x10", "1_e5",
        // digits outside ASCII, in the radix prefix and in the body
        "0٣_12", "03６_zz", "0²_101", "٣٤", "1٣", "016_ＦＦ", "0１0_7",
    ];
    let lit = match r.below(5) {
        0 | 1 => {
            let q = *r.pick(&[1usize, 1, 3, 4]);
            let n = r.below(5);
            let body: String = (0..n).map(|_| *r.pick(&FRAG)).collect();
            format!("{}{}{}", "\"".repeat(q), body, "\"".repeat(q))
        }
        2 => {
            let q = *r.pick(&[1usize, 1, 2, 3]);
            let n = r.below(5);
            let body: Vec<&str> = (0..n).map(|_| *r.pick(&FRAG)).collect();
            format!("{}{}{}", "'".repeat(q), body.join(if q >= 2 { " " } else { "" }), "'".repeat(q))
        }
        3 => (*r.pick(&NUMS)).to_string(),
        _ => {
            // unterminated / oddly quoted
            let n = r.below(4);
            let body: String = (0..n).map(|_| *r.pick(&FRAG)).collect();
            format!("{}{}", *r.pick(&["\"", "'", "\"\"\"", "''", "\"\""]), body)
        }
    };
    match r.below(6) {
        0 => format!("{} + 1", lit),
        1 => format!("x = {}", lit),
        2 => format!("({}) .| ", lit),
        3 => format!("{} {}", lit, lit),
        _ => lit,
    }
}

/// focused alphabets: every sequence up to a longer length over the tokens of one sub-language, where the
/// 33-class enumeration is too short to spell the interesting neighbourhoods (else after a non-conditional,
/// restart inside a later condition, blocks around groups, apply forms inside nested expressions)
pub const FOCUS: [(&str, &[&str]); 5] = [
    ("conditionals", &["5", "x", "?>", "!>", "|>", "(", ")", "^~", ",", "&&", ";;"]),
    ("blocks-and-lists", &["5", "x", "[", "]", "(", ")", ",", "+", "--", "~~", ";"]),
    ("expressions-and-apply", &["5", "$", "{", "}", "<~", "~>", "~~", "^~", "?>", ";"]),
    ("separators", &["5", "x", ";", "\n\n", ";;", "(", ")", "{", "}", ",", "[", "]"]),
    ("identifier-apply", &["5", "x", "`f`", "f`", "`g", "+", ".x", "(", ")", "--"]),
];

pub fn focus_count(len: usize) -> u64 {
    FOCUS.iter().map(|(_, a)| (1..=len).map(|l| (a.len() as u64).pow(l as u32)).sum::<u64>()).sum()
}

/// the `code`-th focused sequence (all alphabets, lengths 1..=len), tokens joined by one space
pub fn focus_seq(len: usize, mut code: u64) -> (String, &'static str) {
    for (name, alpha) in FOCUS.iter() {
        for l in 1..=len {
            let n = (alpha.len() as u64).pow(l as u32);
            if code < n {
                let mut parts = vec![];
                for _ in 0..l {
                    parts.push(alpha[(code % alpha.len() as u64) as usize]);
                    code /= alpha.len() as u64;
                }
                return (parts.join(" "), name);
            }
            code -= n;
        }
    }
    (String::new(), "none")
}
