//! Shared program-level machinery for C01, C10, C17, C18, C19, C20: run a printed AST through the
//! real pipeline on a monitored store, run the reference evaluator, normalise expression
//! identities, compare.

use crate::ast::E;
use crate::eval::{Ev, Host as RefHost, HostEv, Stop};
use crate::mon::{Host, HostCall, HostMode, Mon};
use crate::pipe::{compile, start, step, Compiled, Fail, Stage};
use crate::refparse::{refparse, Tree};
use crate::store::Store;
use crate::value::{construct, readback, Mk, V};
use garnish_lang_compiler::parse::Definition as Df;
use garnish_lang_traits::{GarnishData, Instruction as I};
use std::collections::HashMap;

/// nested-expression bodies in the order their `{` appears in the printed text
pub fn nested_in_print_order<'e>(e: &'e E, out: &mut Vec<&'e E>) {
    match e {
        E::Nested(b) => {
            out.push(&**b);
            nested_in_print_order(b, out);
        }
        E::Un(_, x) | E::Group(x) | E::Reapply(x) => nested_in_print_order(x, out),
        E::Bin(_, a, b) | E::Effect(a, b) => {
            nested_in_print_order(a, out);
            nested_in_print_order(b, out);
        }
        E::List(xs) | E::Comma(xs, _) | E::Seq(xs, _) => xs.iter().for_each(|x| nested_in_print_order(x, out)),
        E::Cond(arms, els) => {
            for (_, c, a) in arms {
                nested_in_print_order(c, out);
                nested_in_print_order(a, out);
            }
            if let Some(x) = els {
                nested_in_print_order(x, out);
            }
        }
        _ => {}
    }
}

pub fn map_expr(v: &V, f: &dyn Fn(usize) -> Option<usize>) -> V {
    match v {
        V::Expr(i) => match f(*i) {
            Some(o) => V::Expr(o),
            None => V::Unknown,
        },
        V::Pair(a, b) => V::Pair(Box::new(map_expr(a, f)), Box::new(map_expr(b, f))),
        V::Concat(a, b) => V::Concat(Box::new(map_expr(a, f)), Box::new(map_expr(b, f))),
        V::Range(a, b) => V::Range(Box::new(map_expr(a, f)), Box::new(map_expr(b, f))),
        V::Slice(a, b) => V::Slice(Box::new(map_expr(a, f)), Box::new(map_expr(b, f))),
        V::Partial(a, b) => V::Partial(Box::new(map_expr(a, f)), Box::new(map_expr(b, f))),
        V::List(xs) => V::List(xs.iter().map(|x| map_expr(x, f)).collect()),
        o => o.clone(),
    }
}

pub struct RefRun {
    /// a sub-expression outside the pinned semantics was evaluated: nothing about this run is compared
    pub tainted: bool,
    pub value: Result<V, &'static str>,
    pub log: Vec<HostEv>,
    pub steps: u64,
    /// undefined combinations the reference offered to the host
    pub defers: u64,
}

/// reference evaluation; expression values are renamed to the ordinal of their `{` in the text
pub fn reference(e: &E, input: &V, resolves: &HashMap<u64, V>, max_steps: u64) -> RefRun {
    reference_h(e, input, resolves, false, max_steps)
}

/// reference evaluation under a host that also accepts (or declines) external applies
pub fn reference_h(e: &E, input: &V, resolves: &HashMap<u64, V>, apply_accept: bool, max_steps: u64) -> RefRun {
    let mut host = RefHost { resolve: resolves.clone(), apply_accept, log: vec![] };
    let order = {
        let mut v = vec![];
        nested_in_print_order(e, &mut v);
        v
    };
    let (value, steps, tainted, defers) = {
        let mut ev = Ev::new(&mut host, max_steps);
        let r = ev.program(e, input.clone());
        let exprs = ev.exprs.clone();
        let steps = ev.steps;
        let tainted = ev.tainted;
        let defers = ev.defers;
        let v = match r {
            Ok(v) => Ok(map_expr(&v, &|id| exprs.get(id).and_then(|p| order.iter().position(|q| std::ptr::eq(*q, *p))))),
            Err(Stop::Budget) => Err("budget"),
            Err(Stop::Restart(_)) => Err("restart-escaped"),
        };
        (v, steps, tainted, defers)
    };
    RefRun { tainted, value, log: host.log, steps, defers }
}

pub struct RealRun<D: Store + Mk> {
    pub m: Mon<D>,
    pub outcome: RealOutcome,
    pub steps: u64,
}

pub enum RealOutcome {
    Value(Result<V, String>),
    CompileFail(Fail),
    RunFail(Fail),
    StepLimit,
    SetupFail(String),
}

/// jump index -> ordinal of the nested expression's `{` in source order
pub fn expr_ordinals<D: Store + Mk>(m: &Mon<D>, c: &Compiled<Mon<D>>) -> HashMap<usize, usize> {
    let nodes = c.parse.get_nodes();
    let mut ne: Vec<(usize, (usize, usize))> = nodes
        .iter()
        .enumerate()
        .filter(|(_, n)| n.get_definition() == Df::NestedExpression)
        .map(|(i, n)| (i, (n.get_lex_token().get_line(), n.get_lex_token().get_column())))
        .collect();
    ne.sort_by_key(|x| x.1);
    let mut out = HashMap::new();
    for (k, md) in c.build.instruction_metadata().iter().enumerate() {
        if let Some(ni) = md.get_parse_node_index() {
            if let Some(ord) = ne.iter().position(|x| x.0 == ni) {
                if let Some((I::Put, Some(addr))) = m.get_instruction(c.instr_start + k) {
                    if let Ok(j) = m.get_expression(addr) {
                        out.insert(j, ord);
                    }
                }
            }
        }
    }
    out
}

pub struct RunCfg {
    pub max_steps: u64,
    pub host: Host,
}

/// lex -> parse -> build into a fresh monitored store -> push input -> run to End -> read back
pub fn real<D: Store + Mk>(src: &str, input: &V, cfg: &RunCfg) -> RealRun<D> {
    real_in(Mon::fresh(), src, input, cfg)
}

/// same, into a monitored store the caller prepared (native host plumbing, earlier content)
pub fn real_in<D: Store + Mk>(m: Mon<D>, src: &str, input: &V, cfg: &RunCfg) -> RealRun<D> {
    let mut m = m;
    m.host = cfg.host.clone();
    m.max_instr = 100_000;
    m.max_data = 2_000_000;
    let c = match compile(src, &mut m) {
        Ok(c) => c,
        Err(f) => return RealRun { m, outcome: RealOutcome::CompileFail(f), steps: 0 },
    };
    let ords = expr_ordinals(&m, &c);
    let ia = match construct(&mut m, input) {
        Ok(a) => a,
        Err(e) => return RealRun { m, outcome: RealOutcome::SetupFail(format!("construct input: {}", e)), steps: 0 },
    };
    if let Err(e) = start(&mut m, *c.build.jump_index(), ia) {
        return RealRun { m, outcome: RealOutcome::SetupFail(e), steps: 0 };
    }
    let mut n = 0u64;
    loop {
        if n >= cfg.max_steps {
            return RealRun { m, outcome: RealOutcome::StepLimit, steps: n };
        }
        match step(&mut m) {
            Ok(true) => n += 1,
            Ok(false) => {
                n += 1;
                break;
            }
            Err(f) => return RealRun { m, outcome: RealOutcome::RunFail(f), steps: n },
        }
    }
    m.refresh_top_value();
    let v = match m.get_current_value() {
        Some(a) => readback(&m.d, a).map(|v| map_expr(&v, &|j| ords.get(&j).cloned())),
        None => Err("no current value after End".to_string()),
    };
    RealRun { m, outcome: RealOutcome::Value(v), steps: n }
}

pub fn resolve_log<D: Store + Mk>(m: &Mon<D>) -> Vec<u64> {
    m.calls
        .iter()
        .filter_map(|c| match c {
            HostCall::Resolve { sym, .. } => Some(*sym),
            _ => None,
        })
        .collect()
}

pub fn script_host(resolves: &HashMap<u64, V>) -> Host {
    Host { mode: HostMode::Script, resolve: resolves.clone(), apply_accept: false, defer_accept: false }
}

// ------------------------------------------------------------------ printer self-check

fn left_nest(def: &str, text: &str, items: Vec<Tree>) -> Tree {
    let mut it = items.into_iter();
    let mut acc = it.next().unwrap();
    for x in it {
        acc = Tree::Bin(def.to_string(), text.to_string(), Box::new(acc), Some(Box::new(x)));
    }
    acc
}

/// the parse tree the AST denotes, in the reference parser's canonical form (None: has constructs
/// the reference parser does not model — side-effect blocks)
pub fn ast_tree(e: &E) -> Option<Tree> {
    use crate::ast::{Bin, Un};
    Some(match e {
        E::Int(_) | E::Float(_) => Tree::Leaf("Number".into(), e.print()),
        E::Str(_) => Tree::Leaf("CharList".into(), e.print()),
        E::Sym(_) => Tree::Leaf("Symbol".into(), e.print()),
        E::Unit => Tree::Leaf("Unit".into(), "()".into()),
        E::True => Tree::Leaf("True".into(), "$?".into()),
        E::False => Tree::Leaf("False".into(), "$!".into()),
        E::Input => Tree::Leaf("Value".into(), "$".into()),
        E::Ident(s) => Tree::Leaf("Identifier".into(), s.clone()),
        E::Prop(s) => Tree::Leaf("Property".into(), s.clone()),
        E::Un(u, x) => {
            let d = match u {
                Un::Abs => "AbsoluteValue",
                Un::Neg => "Opposite",
                Un::BNot => "BitwiseNot",
                Un::Not => "Not",
                Un::Tis => "Tis",
                Un::TypeOf => "TypeOf",
                Un::LeftInternal => "AccessLeftInternal",
                Un::RightInternal => "AccessRightInternal",
                Un::LengthInternal => "AccessLengthInternal",
                Un::EmptyApply => "EmptyApply",
            };
            Tree::Un(d.into(), u.text().into(), Box::new(ast_tree(x)?))
        }
        E::Bin(b, l, r) => {
            let d = match b {
                Bin::Add => "Addition",
                Bin::Sub => "Subtraction",
                Bin::Mul => "MultiplicationSign",
                Bin::Div => "Division",
                Bin::IDiv => "IntegerDivision",
                Bin::Rem => "Remainder",
                Bin::Pow => "ExponentialSign",
                Bin::BAnd => "BitwiseAnd",
                Bin::BOr => "BitwiseOr",
                Bin::BXor => "BitwiseXor",
                Bin::Shl => "BitwiseLeftShift",
                Bin::Shr => "BitwiseRightShift",
                Bin::Lt => "LessThan",
                Bin::Le => "LessThanOrEqual",
                Bin::Gt => "GreaterThan",
                Bin::Ge => "GreaterThanOrEqual",
                Bin::Eq => "Equality",
                Bin::Ne => "Inequality",
                Bin::And => "And",
                Bin::Or => "Or",
                Bin::Xor => "Xor",
                Bin::Pair => "Pair",
                Bin::Access => "Access",
                Bin::Apply => "Apply",
                Bin::ApplyTo => "ApplyTo",
                Bin::Concat => "Concatenation",
                Bin::Partial => "PartialApply",
            };
            Tree::Bin(d.into(), b.text().into(), Box::new(ast_tree(l)?), Some(Box::new(ast_tree(r)?)))
        }
        E::List(xs) => left_nest("List", "", xs.iter().map(ast_tree).collect::<Option<Vec<_>>>()?),
        E::Comma(xs, trailing) => {
            let t = left_nest("CommaList", ",", xs.iter().map(ast_tree).collect::<Option<Vec<_>>>()?);
            if *trailing { Tree::Bin("CommaList".into(), ",".into(), Box::new(t), None) } else { t }
        }
        E::Group(x) => Tree::Group("Group".into(), Some(Box::new(ast_tree(x)?))),
        E::Nested(x) => Tree::Group("NestedExpression".into(), Some(Box::new(ast_tree(x)?))),
        E::Cond(arms, els) => {
            let mut parts = vec![];
            for (neg, c, a) in arms {
                let (d, t) = if *neg { ("JumpIfFalse", "!>") } else { ("JumpIfTrue", "?>") };
                parts.push(Tree::Bin(d.into(), t.into(), Box::new(ast_tree(c)?), Some(Box::new(ast_tree(a)?))));
            }
            if let Some(e) = els {
                parts.push(ast_tree(e)?);
            }
            left_nest("ElseJump", "|>", parts)
        }
        E::Seq(xs, semi) => {
            let (d, t) = if *semi { ("ExpressionSeparator", ";") } else { ("Subexpression", "<blank line>") };
            left_nest(d, t, xs.iter().map(ast_tree).collect::<Option<Vec<_>>>()?)
        }
        E::Reapply(x) => Tree::Un("Reapply".into(), "^~".into(), Box::new(ast_tree(x)?)),
        E::Effect(..) => return None,
    })
}

/// Ok(()) when the printed text denotes the AST according to the reference parser
pub fn printer_selfcheck(e: &E, src: &str) -> Result<(), String> {
    let want = match ast_tree(e) {
        Some(t) => t,
        None => return Ok(()),
    };
    let toks = crate::pipe::lex_g(src).map_err(|f| format!("printed text does not lex: {}", f.show()))?;
    // parentheses the printer adds are group nodes in the tree: compare modulo plain groups
    let want = want.strip_groups();
    match refparse(&toks).map(|t| t.strip_groups()) {
        Some(t) if t == want => Ok(()),
        Some(t) => Err(format!("printed {:?} denotes {} but the AST is {}", src, t.sexpr(), want.sexpr())),
        None => Err(format!("printed {:?} is outside the reference grammar", src)),
    }
}

pub fn stage_name(s: &Stage) -> &'static str {
    match s {
        Stage::Lex => "lex",
        Stage::Parse => "parse",
        Stage::Build => "build",
        Stage::Run => "run",
    }
}
