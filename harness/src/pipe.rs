//! The execution protocol of tests/src/main.rs, wrapped with panic capture and budgets.

use crate::util::guarded;
use garnish_lang_compiler::build::{build, BuildData};
use garnish_lang_compiler::lex::{lex, LexerToken};
use garnish_lang_compiler::parse::{parse, ParseResult};
use garnish_lang_runtime::{execute_current_instruction, SimpleRuntimeState};
use garnish_lang_simple_data::DataError;
use garnish_lang_traits::{GarnishData, Instruction};

#[derive(Clone, Debug, PartialEq)]
pub enum Stage {
    Lex,
    Parse,
    Build,
    Run,
}

#[derive(Clone, Debug)]
pub enum Fail {
    Err(Stage, String),
    Panic(Stage, String, String),
}

impl Fail {
    pub fn stage(&self) -> &Stage {
        match self {
            Fail::Err(s, _) | Fail::Panic(s, _, _) => s,
        }
    }
    pub fn is_panic(&self) -> bool {
        matches!(self, Fail::Panic(..))
    }
    pub fn show(&self) -> String {
        match self {
            Fail::Err(s, m) => format!("{:?} error: {}", s, m),
            Fail::Panic(s, m, l) => format!("{:?} PANIC: {} at {}", s, m, l),
        }
    }
}

pub fn lex_g(src: &str) -> Result<Vec<LexerToken>, Fail> {
    match guarded(|| lex(src)) {
        Ok(Ok(t)) => Ok(t),
        Ok(Err(e)) => Err(Fail::Err(Stage::Lex, e.get_message().clone())),
        Err((m, l)) => Err(Fail::Panic(Stage::Lex, m, l)),
    }
}

pub fn parse_g(tokens: &Vec<LexerToken>) -> Result<ParseResult, Fail> {
    match guarded(|| parse(tokens)) {
        Ok(Ok(t)) => Ok(t),
        Ok(Err(e)) => Err(Fail::Err(Stage::Parse, e.get_message().clone())),
        Err((m, l)) => Err(Fail::Panic(Stage::Parse, m, l)),
    }
}

pub fn build_g<D: GarnishData<Error = DataError, Size = usize>>(p: &ParseResult, d: &mut D) -> Result<BuildData<D>, Fail> {
    match guarded(|| build(p.get_root(), p.get_nodes().clone(), d)) {
        Ok(Ok(t)) => Ok(t),
        Ok(Err(e)) => {
            let s: String = e.into();
            Err(Fail::Err(Stage::Build, s))
        }
        Err((m, l)) => Err(Fail::Panic(Stage::Build, m, l)),
    }
}

pub struct Compiled<D: GarnishData> {
    pub tokens: Vec<LexerToken>,
    pub parse: ParseResult,
    pub build: BuildData<D>,
    pub instr_start: usize,
    pub instr_end: usize,
    pub jump_start: usize,
    pub jump_end: usize,
    pub data_start: usize,
    pub data_end: usize,
}

pub fn compile<D: GarnishData<Error = DataError, Size = usize>>(src: &str, d: &mut D) -> Result<Compiled<D>, Fail> {
    let tokens = lex_g(src)?;
    let parse = parse_g(&tokens)?;
    let (i0, j0, d0) = (d.get_instruction_len(), d.get_jump_table_len(), d.get_data_len());
    let build = build_g(&parse, d)?;
    Ok(Compiled {
        tokens,
        parse,
        build,
        instr_start: i0,
        instr_end: d.get_instruction_len(),
        jump_start: j0,
        jump_end: d.get_jump_table_len(),
        data_start: d0,
        data_end: d.get_data_len(),
    })
}

/// position the cursor at the entry reported by the build and push the input value
pub fn start<D: GarnishData<Error = DataError, Size = usize>>(d: &mut D, jump_index: usize, input: usize) -> Result<(), String> {
    let entry = d.get_from_jump_table(jump_index).ok_or_else(|| format!("no jump table entry {}", jump_index))?;
    d.set_instruction_cursor(entry).map_err(|e| e.to_string())?;
    d.push_value_stack(input).map_err(|e| e.to_string())?;
    Ok(())
}

#[derive(Clone, Debug)]
pub enum RunEnd {
    End(u64),
    StepLimit(u64),
    Fail(Fail, u64),
}

/// one guarded step; Ok(true) = still running
pub fn step<D: GarnishData<Error = DataError, Size = usize>>(d: &mut D) -> Result<bool, Fail> {
    match guarded(|| execute_current_instruction(d)) {
        Ok(Ok(info)) => Ok(info.get_state() == SimpleRuntimeState::Running),
        Ok(Err(e)) => Err(Fail::Err(Stage::Run, format!("{:?}|{}", e.get_type(), err_text(&e)))),
        Err((m, l)) => Err(Fail::Panic(Stage::Run, m, l)),
    }
}

pub fn err_text<E: std::error::Error + 'static>(e: &garnish_lang_traits::RuntimeError<E>) -> String {
    let mut s = e.get_message().clone();
    if let Some(src) = std::error::Error::source(e) {
        if !s.is_empty() {
            s.push_str(": ");
        }
        s.push_str(&src.to_string());
    }
    s
}

pub fn run<D: GarnishData<Error = DataError, Size = usize>>(d: &mut D, max_steps: u64) -> RunEnd {
    let mut n = 0u64;
    loop {
        if n >= max_steps {
            return RunEnd::StepLimit(n);
        }
        match step(d) {
            Ok(true) => n += 1,
            Ok(false) => return RunEnd::End(n + 1),
            Err(f) => return RunEnd::Fail(f, n),
        }
    }
}

pub fn disasm<D: GarnishData<Error = DataError, Size = usize>>(d: &D, from: usize, to: usize) -> Vec<String> {
    let mut out = vec![];
    for i in from..to {
        match d.get_instruction(i) {
            Some((ins, Some(x))) => out.push(format!("{:3}: {:?} {}", i, ins, x)),
            Some((ins, None)) => out.push(format!("{:3}: {:?}", i, ins)),
            None => out.push(format!("{:3}: <none>", i)),
        }
    }
    out
}

pub fn ins_name(i: Instruction) -> String {
    format!("{:?}", i)
}

// ---------------------------------------------------------------- single-instruction programs

use crate::mon::Mon;
use crate::store::Store;
use crate::value::{construct, readback, Mk, V};

pub struct OneStep {
    pub operand_addrs: Vec<usize>,
    pub depth_before: usize,
    pub outcome: Result<bool, Fail>,
    pub depth_after: usize,
    /// value on top of the operand stack after the step
    pub top: Option<Result<V, String>>,
}

/// Build `operands` in the monitored store, push them, emit one instruction and execute it.
pub fn exec_one<D: Store + Mk>(m: &mut Mon<D>, ins: Instruction, data: Option<usize>, operands: &[V]) -> Result<OneStep, String> {
    let mut addrs = vec![];
    for v in operands {
        addrs.push(construct(m, v).map_err(|e| format!("construct {}: {}", v.show(), e))?);
    }
    exec_one_at(m, ins, data, &addrs)
}

pub fn exec_one_at<D: Store + Mk>(m: &mut Mon<D>, ins: Instruction, data: Option<usize>, addrs: &[usize]) -> Result<OneStep, String> {
    for a in addrs {
        m.push_register(*a).map_err(|e| format!("push_register: {}", e))?;
    }
    let idx = m.push_instruction(ins, data).map_err(|e| format!("push_instruction: {}", e))?;
    // a following instruction so that the step does not run off the end
    m.push_instruction(Instruction::EndExpression, None).map_err(|e| format!("push_instruction: {}", e))?;
    m.set_instruction_cursor(idx).map_err(|e| format!("set cursor: {}", e))?;
    let depth_before = m.depth();
    let outcome = step(m);
    m.refresh_top_value();
    let depth_after = m.depth();
    let top = m.regs.last().map(|a| readback(&m.d, *a));
    Ok(OneStep { operand_addrs: addrs.to_vec(), depth_before, outcome, depth_after, top })
}
