//! Core-language AST (C01's grammar), printer with minimal parentheses, exhaustive and random
//! generators. The reference evaluator (eval.rs) works on this AST only.

use crate::util::Rng;

#[derive(Clone, Copy, Debug, PartialEq, Eq, Hash)]
pub enum Bin {
    Add,
    Sub,
    Mul,
    Div,
    IDiv,
    Rem,
    Pow,
    BAnd,
    BOr,
    BXor,
    Shl,
    Shr,
    Lt,
    Le,
    Gt,
    Ge,
    Eq,
    Ne,
    And,
    Or,
    Xor,
    Pair,
    Access,
    Apply,
    ApplyTo,
    /// `a <> b`: a concatenation value (lists directly under it are spliced when it is walked)
    Concat,
    /// `f ~ x`: a partial application value; applying it runs `f` with `x <> argument` as input
    Partial,
}

pub const BINS: [Bin; 27] = [
    Bin::Add,
    Bin::Sub,
    Bin::Mul,
    Bin::Div,
    Bin::IDiv,
    Bin::Rem,
    Bin::Pow,
    Bin::BAnd,
    Bin::BOr,
    Bin::BXor,
    Bin::Shl,
    Bin::Shr,
    Bin::Lt,
    Bin::Le,
    Bin::Gt,
    Bin::Ge,
    Bin::Eq,
    Bin::Ne,
    Bin::And,
    Bin::Or,
    Bin::Xor,
    Bin::Pair,
    Bin::Access,
    Bin::Apply,
    Bin::ApplyTo,
    Bin::Concat,
    Bin::Partial,
];

impl Bin {
    pub fn text(self) -> &'static str {
        match self {
            Bin::Add => "+",
            Bin::Sub => "-",
            Bin::Mul => "*",
            Bin::Div => "/",
            Bin::IDiv => "//",
            Bin::Rem => "%",
            Bin::Pow => "**",
            Bin::BAnd => "&",
            Bin::BOr => "|",
            Bin::BXor => "^",
            Bin::Shl => "<<",
            Bin::Shr => ">>",
            Bin::Lt => "<",
            Bin::Le => "<=",
            Bin::Gt => ">",
            Bin::Ge => ">=",
            Bin::Eq => "==",
            Bin::Ne => "!=",
            Bin::And => "&&",
            Bin::Or => "||",
            Bin::Xor => "^^",
            Bin::Pair => "=",
            Bin::Access => ".",
            Bin::Apply => "<~",
            Bin::ApplyTo => "~>",
            Bin::Concat => "<>",
            Bin::Partial => "~",
        }
    }
    pub fn prio(self) -> usize {
        match self {
            Bin::Access => 30,
            Bin::Pow => 80,
            Bin::Mul | Bin::Div | Bin::IDiv | Bin::Rem => 90,
            Bin::Add | Bin::Sub => 100,
            Bin::Shl | Bin::Shr => 110,
            Bin::BAnd => 111,
            Bin::BXor => 112,
            Bin::BOr => 113,
            Bin::Pair => 210,
            Bin::Concat => 240,
            Bin::Partial => 230,
            Bin::Lt | Bin::Le | Bin::Gt | Bin::Ge => 300,
            Bin::Eq | Bin::Ne => 400,
            Bin::And => 410,
            Bin::Xor => 420,
            Bin::Or => 430,
            Bin::Apply | Bin::ApplyTo => 550,
        }
    }
    pub fn rtl(self) -> bool {
        self == Bin::Pair
    }
}

#[derive(Clone, Copy, Debug, PartialEq, Eq, Hash)]
pub enum Un {
    Abs,
    Neg,
    BNot,
    Not,
    Tis,
    TypeOf,
    LeftInternal,
    RightInternal,
    LengthInternal,
    EmptyApply,
}
pub const UNS: [Un; 10] = [Un::Abs, Un::Neg, Un::BNot, Un::Not, Un::Tis, Un::TypeOf, Un::LeftInternal, Un::RightInternal, Un::LengthInternal, Un::EmptyApply];

impl Un {
    pub fn text(self) -> &'static str {
        match self {
            Un::Abs => "++",
            Un::Neg => "--",
            Un::BNot => "!",
            Un::Not => "!!",
            Un::Tis => "??",
            Un::TypeOf => "#",
            Un::LeftInternal => "_.",
            Un::RightInternal => "._",
            Un::LengthInternal => ".|",
            Un::EmptyApply => "~~",
        }
    }
    pub fn suffix(self) -> bool {
        matches!(self, Un::RightInternal | Un::LengthInternal | Un::EmptyApply)
    }
    pub fn prio(self) -> usize {
        match self {
            Un::EmptyApply => 40,
            Un::LeftInternal => 50,
            Un::RightInternal | Un::LengthInternal => 60,
            Un::TypeOf => 69,
            Un::Abs | Un::Neg | Un::BNot => 75,
            Un::Not | Un::Tis => 400,
        }
    }
}

#[derive(Clone, Debug, PartialEq)]
pub enum E {
    Int(i32),
    Float(f64),
    Str(String),
    Sym(String),
    Unit,
    True,
    False,
    Input,
    /// identifier: looked up in `$`, then offered to the host
    Ident(String),
    /// identifier on the right of `.`: a symbol, never resolved
    Prop(String),
    Un(Un, Box<E>),
    Bin(Bin, Box<E>, Box<E>),
    /// space list, at least two elements
    List(Vec<E>),
    /// comma list; bool = trailing comma (needed for a one-element list)
    Comma(Vec<E>, bool),
    Group(Box<E>),
    /// `{ body }`
    Nested(Box<E>),
    /// (negated, condition, arm)* + optional else value
    Cond(Vec<(bool, E, E)>, Option<Box<E>>),
    /// sub-expression sequence; bool = `;` (else blank line)
    Seq(Vec<E>, bool),
    /// value with a side-effect block after it: `v [body]`
    Effect(Box<E>, Box<E>),
    /// `^~ e` — only generated inside bounded loop templates
    Reapply(Box<E>),
}

pub const LIST_PRIO: usize = 220;
pub const COND_PRIO: usize = 700;
pub const ELSE_PRIO: usize = 800;
pub const COMMA_PRIO: usize = 900;
pub const SEQ_PRIO: usize = 1000;
pub const REAPPLY_PRIO: usize = 600;

impl E {
    pub fn b(self) -> Box<E> {
        Box::new(self)
    }
    /// priority number of the top-level construct (atoms and brackets: 10)
    pub fn prio(&self) -> usize {
        match self {
            E::Un(u, _) => u.prio(),
            E::Bin(b, _, _) => b.prio(),
            E::List(_) => LIST_PRIO,
            E::Comma(..) => COMMA_PRIO,
            E::Cond(_, None) => COND_PRIO,
            E::Cond(arms, Some(_)) => {
                let _ = arms;
                ELSE_PRIO
            }
            E::Seq(..) => SEQ_PRIO,
            E::Reapply(_) => REAPPLY_PRIO,
            // a value with its side effect block prints as `v [..]`: as tight as the value
            E::Effect(v, _) => v.prio(),
            _ => 10,
        }
    }
    pub fn size(&self) -> usize {
        1 + match self {
            E::Un(_, x) | E::Group(x) | E::Nested(x) | E::Reapply(x) => x.size(),
            E::Bin(_, a, b) | E::Effect(a, b) => a.size() + b.size(),
            E::List(xs) | E::Comma(xs, _) | E::Seq(xs, _) => xs.iter().map(|x| x.size()).sum(),
            E::Cond(arms, e) => arms.iter().map(|(_, c, a)| c.size() + a.size()).sum::<usize>() + e.as_ref().map(|x| x.size()).unwrap_or(0),
            _ => 0,
        }
    }

    fn wrap(&self, limit: usize) -> String {
        // printed bare when its priority number is <= limit, else in parentheses
        let s = self.print();
        if self.prio() <= limit && !matches!(self, E::Seq(..)) { s } else { format!("({})", s) }
    }

    /// source text with the parentheses the operator table requires, and no others
    pub fn print(&self) -> String {
        match self {
            E::Int(i) => format!("{}", i),
            E::Float(f) => {
                let d = format!("{:?}", f);
                if d.contains("e-") { format!("{}", f) } else { d }
            }
            E::Str(s) => format!("\"{}\"", s),
            E::Sym(s) => format!(":{}", s),
            E::Unit => "()".into(),
            E::True => "$?".into(),
            E::False => "$!".into(),
            E::Input => "$".into(),
            E::Ident(s) | E::Prop(s) => s.clone(),
            E::Un(u, x) => {
                if u.suffix() {
                    // a suffix takes operators at most as loose as itself on its left
                    format!("{}{}{}", x.wrap(u.prio()), if matches!(u, Un::EmptyApply) { "" } else { " " }, u.text())
                } else {
                    // only strictly tighter operators bind inside a prefix operand
                    format!("{} {}", u.text(), x.wrap(u.prio() - 1))
                }
            }
            E::Bin(b, l, r) => {
                let p = b.prio();
                let (ll, rl) = if b.rtl() { (p - 1, p) } else { (p, p - 1) };
                let mut ls = l.wrap(ll);
                // a prefix operator on the left would swallow this operator when it is tighter
                if let E::Un(u, _) = &**l {
                    if !u.suffix() && u.prio() > p {
                        ls = format!("({})", l.print());
                    }
                }
                let mut rs = r.wrap(rl);
                if *b == Bin::Access {
                    // `.` followed by a digit is a float literal unless the token before it forbids one
                    let blocks_float = |e: &E| -> bool {
                        match e {
                            E::Input | E::Str(_) | E::Ident(_) | E::Prop(_) => true,
                            E::Bin(Bin::Access, _, rr) => matches!(**rr, E::Prop(_) | E::Int(_)),
                            _ => false,
                        }
                    };
                    if rs.chars().next().map(|c| c.is_ascii_digit()).unwrap_or(false) && !(blocks_float(l) && !ls.ends_with(')')) {
                        rs = format!("({})", rs);
                    }
                    // an integer literal would swallow the period
                    let sep = if ls.chars().last().map(|c| c.is_ascii_digit()).unwrap_or(false) && matches!(**l, E::Int(_)) { " ." } else { "." };
                    format!("{}{}{}", ls, sep, rs)
                } else {
                    format!("{} {} {}", ls, b.text(), rs)
                }
            }
            E::List(xs) => xs.iter().map(|x| x.wrap(LIST_PRIO - 1)).collect::<Vec<_>>().join(" "),
            E::Comma(xs, trailing) => {
                let mut s = xs.iter().map(|x| x.wrap(COMMA_PRIO - 1)).collect::<Vec<_>>().join(", ");
                if *trailing {
                    s.push(',');
                }
                s
            }
            E::Group(x) => format!("({})", x.print()),
            E::Nested(x) => format!("{{ {} }}", x.print()),
            E::Cond(arms, els) => {
                let mut parts = vec![];
                for (neg, c, a) in arms {
                    parts.push(format!("{} {} {}", c.wrap(COND_PRIO), if *neg { "!>" } else { "?>" }, a.wrap(COND_PRIO - 1)));
                }
                let mut s = parts.join(" |> ");
                if let Some(e) = els {
                    s.push_str(" |> ");
                    // a bare conditional here would become the last link of the chain (no value when it fails)
                    s.push_str(&e.wrap(COND_PRIO - 1));
                }
                s
            }
            E::Seq(xs, semi) => xs.iter().map(|x| x.wrap(SEQ_PRIO - 1)).collect::<Vec<_>>().join(if *semi { " ; " } else { "\n\n" }),
            E::Effect(v, body) => format!("{} [{}]", v.print(), body.print()),
            E::Reapply(x) => format!("^~ {}", x.wrap(REAPPLY_PRIO - 1)),
        }
    }

    /// identifiers that occur (for input / host construction)
    pub fn idents(&self, out: &mut Vec<String>) {
        match self {
            E::Ident(s) => {
                if !out.contains(s) {
                    out.push(s.clone())
                }
            }
            E::Un(_, x) | E::Group(x) | E::Nested(x) | E::Reapply(x) => x.idents(out),
            E::Bin(_, a, b) | E::Effect(a, b) => {
                a.idents(out);
                b.idents(out)
            }
            E::List(xs) | E::Comma(xs, _) | E::Seq(xs, _) => xs.iter().for_each(|x| x.idents(out)),
            E::Cond(arms, e) => {
                for (_, c, a) in arms {
                    c.idents(out);
                    a.idents(out);
                }
                if let Some(e) = e {
                    e.idents(out)
                }
            }
            _ => {}
        }
    }
}

// ------------------------------------------------------------------ generators

pub fn atoms() -> Vec<E> {
    vec![E::Int(0), E::Int(1), E::Int(7), E::Float(2.5), E::Str("ab".into()), E::Sym("k".into()), E::Unit, E::True, E::False, E::Input, E::Ident("x".into()), E::Ident("y".into())]
}

/// every AST with exactly `n` nodes over the reduced alphabet (n <= 4 is practical)
pub fn all_of_size(n: usize, cache: &mut Vec<Vec<E>>) -> Vec<E> {
    while cache.len() <= n {
        let k = cache.len();
        let mut out = vec![];
        if k == 1 {
            out = atoms();
        } else if k >= 2 {
            // unary, group, nested
            let sub = cache[k - 1].clone();
            for x in &sub {
                if valid_operand(x) {
                    for u in UNS {
                        out.push(E::Un(u, x.clone().b()));
                    }
                    out.push(E::Nested(x.clone().b()));
                    out.push(E::Comma(vec![x.clone()], true));
                }
            }
            // binary-shaped: split k-1 nodes over two children
            for i in 1..k - 1 {
                let (ls, rs) = (cache[i].clone(), cache[k - 1 - i].clone());
                for l in &ls {
                    if !valid_operand(l) {
                        continue;
                    }
                    for r in &rs {
                        if !valid_operand(r) {
                            continue;
                        }
                        for b in BINS {
                            if b == Bin::Access {
                                // property access by name and by value
                                if let E::Ident(name) = r {
                                    out.push(E::Bin(b, l.clone().b(), E::Prop(name.clone()).b()));
                                    continue;
                                }
                            }
                            out.push(E::Bin(b, l.clone().b(), r.clone().b()));
                        }
                        out.push(E::List(vec![l.clone(), r.clone()]));
                        out.push(E::Comma(vec![l.clone(), r.clone()], false));
                        out.push(E::Cond(vec![(false, l.clone(), r.clone())], None));
                        out.push(E::Cond(vec![(true, l.clone(), r.clone())], None));
                        out.push(E::Seq(vec![l.clone(), r.clone()], true));
                        out.push(E::Seq(vec![l.clone(), r.clone()], false));
                        out.push(E::Effect(l.clone().b(), r.clone().b()));
                    }
                }
            }
            // ternary-shaped: conditional with else
            if k >= 4 {
                for i in 1..k - 2 {
                    for j in 1..k - 1 - i {
                        let m = k - 1 - i - j;
                        if m < 1 {
                            continue;
                        }
                        let (cs, asv, es) = (cache[i].clone(), cache[j].clone(), cache[m].clone());
                        for c in cs.iter().filter(|x| valid_operand(x)) {
                            for a in asv.iter().filter(|x| valid_operand(x)) {
                                for e in es.iter().filter(|x| valid_operand(x)) {
                                    out.push(E::Cond(vec![(false, c.clone(), a.clone())], Some(e.clone().b())));
                                }
                            }
                        }
                    }
                }
            }
        }
        // normalise: Effect only on atoms, lists never directly nested (the printer would flatten)
        out.retain(well_formed);
        cache.push(out);
    }
    cache[n].clone()
}

fn valid_operand(e: &E) -> bool {
    !matches!(e, E::Seq(..))
}

/// shapes the printer can express without changing their meaning
pub fn well_formed(e: &E) -> bool {
    match e {
        E::Effect(v, body) => {
            // after a value, or after a closed group (the block then joins the group's content)
            (matches!(**v, E::Int(_) | E::Float(_) | E::Str(_) | E::Sym(_) | E::Unit | E::True | E::False | E::Input | E::Ident(_))
                || matches!(&**v, E::Group(g) if well_formed(g) && !matches!(**g, E::Effect(..) | E::Seq(..)))
                // or after a finished suffix operation (only C18's rewrites build this)
                || matches!(&**v, E::Un(u, x) if u.suffix() && well_formed(x) && !matches!(**x, E::Seq(..) | E::Effect(..))))
                && well_formed(body)
                && !matches!(**body, E::Effect(..))
        }
        E::Un(_, x) | E::Group(x) | E::Reapply(x) => well_formed(x) && !matches!(**x, E::Seq(..)),
        E::Nested(x) => well_formed(x),
        E::Bin(b, l, r) => {
            let prop_ok = match (&**r, b) {
                (E::Prop(_), Bin::Access) => true,
                (E::Prop(_), _) => false,
                // an identifier directly right of `.` is a property, not a look-up
                (E::Ident(_), Bin::Access) => false,
                (E::Effect(v, _), Bin::Access) if matches!(**v, E::Ident(_) | E::Float(_)) => false,
                // a float index would print as a chain of accesses (`$.2.5`)
                (E::Float(_), Bin::Access) => false,
                _ => true,
            };
            prop_ok && well_formed(l) && well_formed(r) && !matches!(**l, E::Seq(..) | E::Prop(_)) && !matches!(**r, E::Seq(..))
        }
        E::List(xs) => xs.len() >= 2 && xs.iter().all(|x| well_formed(x) && !matches!(x, E::Seq(..) | E::Prop(_))),
        E::Comma(xs, t) => !xs.is_empty() && (xs.len() >= 2 || *t) && xs.iter().all(|x| well_formed(x) && !matches!(x, E::Seq(..) | E::Prop(_))),
        E::Cond(arms, els) => {
            !arms.is_empty()
                && arms.iter().all(|(_, c, a)| well_formed(c) && well_formed(a) && !matches!(c, E::Seq(..) | E::Prop(_)) && !matches!(a, E::Seq(..) | E::Prop(_)))
                && els.as_ref().map(|x| well_formed(x) && !matches!(**x, E::Seq(..) | E::Prop(_))).unwrap_or(true)
        }
        E::Seq(xs, _) => xs.len() >= 2 && xs.iter().all(|x| well_formed(x) && !matches!(x, E::Seq(..) | E::Prop(_))),
        E::Prop(_) => true,
        _ => true,
    }
}

pub struct GenCfg {
    pub idents: Vec<String>,
    pub allow_nested: bool,
    pub allow_effects: bool,
    pub allow_seq: bool,
    /// `^~` at arbitrary positions (may not terminate: only for checks that bound steps / do not run)
    pub allow_reapply: bool,
}

impl Default for GenCfg {
    fn default() -> Self {
        GenCfg { idents: vec!["x".into(), "y".into(), "zed".into(), "w".into()], allow_nested: true, allow_effects: true, allow_seq: true, allow_reapply: false }
    }
}

pub fn rand_atom(r: &mut Rng, cfg: &GenCfg) -> E {
    match r.below(16) {
        0..=4 => E::Int(*r.pick(&[0, 1, 2, 3, 5, 7, 10, 31, 32, 100, 2147483647])),
        5 => E::Float(*r.pick(&[0.5, 2.5, 1.0, 100.25])),
        6 => E::Str((*r.pick::<&str>(&["", "a", "ab", "héllo"])).to_string()),
        7 => E::Sym((*r.pick::<&str>(&["k", "x", "name"])).to_string()),
        8 => E::Unit,
        9 => E::True,
        10 => E::False,
        11 | 12 => E::Input,
        _ => E::Ident(r.pick(&cfg.idents).clone()),
    }
}

pub fn rand_expr(r: &mut Rng, depth: usize, cfg: &GenCfg) -> E {
    if depth == 0 || r.chance(1, 5) {
        let mut a = rand_atom(r, cfg);
        if cfg.allow_effects && depth > 0 && r.chance(1, 40) {
            // side-effect block right after a closed group
            a = E::Group(rand_expr(r, depth - 1, &GenCfg { allow_effects: false, allow_seq: false, ..clone_cfg(cfg) }).b());
            return E::Effect(a.b(), rand_expr(r, 1, &GenCfg { allow_effects: false, allow_seq: false, ..clone_cfg(cfg) }).b());
        }
        if cfg.allow_effects && r.chance(1, 14) {
            return E::Effect(a.b(), rand_expr(r, depth.saturating_sub(1).min(2), &GenCfg { allow_effects: false, allow_seq: false, ..clone_cfg(cfg) }).b());
        }
        return a;
    }
    let sub = |r: &mut Rng| rand_expr(r, depth - 1, cfg);
    if cfg.allow_reapply && r.chance(1, 12) {
        let e = E::Reapply(sub(r).b());
        if well_formed(&e) {
            return e;
        }
    }
    let e = match r.below(22) {
        0..=7 => {
            let b = match r.below(10) {
                0..=3 => *r.pick(&[Bin::Add, Bin::Sub, Bin::Mul, Bin::Div, Bin::IDiv, Bin::Rem, Bin::Pow]),
                4 => *r.pick(&[Bin::BAnd, Bin::BOr, Bin::BXor, Bin::Shl, Bin::Shr]),
                5 | 6 => *r.pick(&[Bin::Lt, Bin::Le, Bin::Gt, Bin::Ge, Bin::Eq, Bin::Ne]),
                7 => *r.pick(&[Bin::And, Bin::Or, Bin::Xor]),
                8 => *r.pick(&[Bin::Pair, Bin::Concat, Bin::Access]),
                _ => *r.pick(&[Bin::Pair, Bin::Pair, Bin::Access]),
            };
            if b == Bin::Access {
                let l = sub(r);
                let rhs = match r.below(3) {
                    0 => E::Prop(r.pick(&cfg.idents).clone()),
                    1 => E::Int(r.range(0, 3) as i32),
                    _ => sub(r),
                };
                E::Bin(b, l.b(), rhs.b())
            } else {
                E::Bin(b, sub(r).b(), sub(r).b())
            }
        }
        8 | 9 => E::Un(*r.pick(&UNS[..9]), sub(r).b()),
        10 | 11 => {
            let n = 2 + r.below(3);
            E::List((0..n).map(|_| sub(r)).collect())
        }
        12 => {
            let n = 1 + r.below(3);
            E::Comma((0..n).map(|_| sub(r)).collect(), n == 1 || r.chance(1, 4))
        }
        13 => E::Group(sub(r).b()),
        14 | 15 | 16 => {
            let n = 1 + r.below(3);
            let arms = (0..n).map(|_| (r.chance(1, 3), sub(r), sub(r))).collect();
            // a chain that ends in a conditional yields no value when nothing matches (known finding): always give chains an else
            let els = if n > 1 || r.chance(1, 2) { Some(sub(r).b()) } else { None };
            E::Cond(arms, els)
        }
        17 | 18 if cfg.allow_nested => {
            // nested expression, applied in one of the three ways
            let body = if cfg.allow_seq && r.chance(1, 3) { E::Seq(vec![sub(r), sub(r)], r.chance(1, 2)) } else { sub(r) };
            let f = E::Nested(body.b());
            match r.below(6) {
                0 => E::Bin(Bin::Apply, f.b(), sub(r).b()),
                1 => E::Bin(Bin::ApplyTo, sub(r).b(), f.b()),
                2 => E::Un(Un::EmptyApply, f.b()),
                3 => {
                    // partial application (of the expression, or now and then of something that is not one), applied or not
                    let recv = if r.chance(1, 5) { sub(r) } else { f };
                    let p = E::Group(E::Bin(Bin::Partial, recv.b(), sub(r).b()).b());
                    match r.below(4) {
                        0 => E::Bin(Bin::Apply, p.b(), sub(r).b()),
                        1 => E::Bin(Bin::ApplyTo, sub(r).b(), p.b()),
                        2 => E::Un(Un::EmptyApply, p.b()),
                        _ => p,
                    }
                }
                _ => f,
            }
        }
        19 => {
            // keyed list: what identifiers and property access look things up in
            let n = 1 + r.below(3);
            let items: Vec<E> = (0..n).map(|i| E::Bin(Bin::Pair, E::Sym(cfg.idents[i % cfg.idents.len()].clone()).b(), sub(r).b())).collect();
            let l = E::Group(E::Comma(items, n == 1).b());
            match r.below(3) {
                0 => E::Bin(Bin::Access, l.b(), E::Prop(r.pick(&cfg.idents).clone()).b()),
                1 if cfg.allow_nested => E::Bin(Bin::ApplyTo, l.b(), E::Nested(sub(r).b()).b()),
                _ => l,
            }
        }
        _ => sub(r),
    };
    if well_formed(&e) { e } else { rand_atom(r, cfg) }
}

fn clone_cfg(c: &GenCfg) -> GenCfg {
    GenCfg { idents: c.idents.clone(), allow_nested: c.allow_nested, allow_effects: c.allow_effects, allow_seq: c.allow_seq, allow_reapply: c.allow_reapply }
}

pub fn rand_program(r: &mut Rng, depth: usize, cfg: &GenCfg) -> E {
    if cfg.allow_seq && r.chance(1, 4) {
        let n = 2 + r.below(2);
        let e = E::Seq((0..n).map(|_| rand_expr(r, depth.saturating_sub(1), cfg)).collect(), r.chance(1, 2));
        if well_formed(&e) {
            return e;
        }
    }
    rand_expr(r, depth, cfg)
}

/// bounded loop templates: `{ cond ?> ^~ step |> body } <~ init`
pub fn loop_program(n: i32, variant: usize) -> E {
    let lt = E::Bin(Bin::Lt, E::Input.b(), E::Int(n).b());
    let step = E::Reapply(E::Group(E::Bin(Bin::Add, E::Input.b(), E::Int(1).b()).b()).b());
    let ge = || E::Bin(Bin::Ge, E::Input.b(), E::Int(n).b());
    let body = match variant % 8 {
        0 => E::Cond(vec![(false, lt, step)], Some(E::Input.b())),
        1 => E::Cond(vec![(true, ge(), step)], Some(E::Bin(Bin::Mul, E::Input.b(), E::Int(2).b()).b())),
        2 => E::Cond(vec![(false, ge(), E::List(vec![E::Input, E::Int(9)])), (false, E::True, step)], Some(E::Unit.b())),
        // the restart reached through brackets, through a conditional inside brackets, from a logical
        // operand, from the else position, and from an expression nested in another
        3 => E::Cond(vec![(false, lt, E::Group(step.b()))], Some(E::Input.b())),
        4 => E::Cond(vec![(false, lt, E::Group(E::Cond(vec![(false, E::Bin(Bin::Lt, E::Input.b(), E::Int(100).b()), step)], Some(E::Int(100).b())).b()))], Some(E::Input.b())),
        5 => E::Bin(Bin::And, lt.b(), E::Group(step.b()).b()),
        6 => E::Cond(vec![(false, ge(), E::Input)], Some(step.b())),
        _ => E::Bin(Bin::Apply, E::Nested(E::Cond(vec![(false, lt, step)], Some(E::Bin(Bin::Add, E::Input.b(), E::Int(1000).b()).b())).b()).b(), E::Input.b()),
    };
    E::Bin(Bin::Apply, E::Nested(body.b()).b(), E::Int(0).b())
}
