//! `Store`: the common shape of both shipped data implementations, as seen by the monitors.

use garnish_lang_simple_data::{BasicGarnishData, DataError, NoCustom, NoOpCompanion, SimpleGarnishData, SimpleNumber};
use garnish_lang_traits::GarnishData;

pub type Num = SimpleNumber;

pub trait Store:
    GarnishData<Error = DataError, Symbol = u64, Byte = u8, Char = char, Number = SimpleNumber, Size = usize> + Clone
{
    const NAME: &'static str;
    /// Simple keeps frames inside the register vector: `get_register_len` counts them and a
    /// `pop_frame` that finds no frame empties the vector.
    const FRAMES_IN_REGISTERS: bool;
    fn fresh() -> Self;
    fn symbol_name(&self, sym: u64) -> Option<String>;

    /// depth of the input-value stack, observed through the public API on a clone
    fn value_stack_depth(&self) -> usize {
        let mut c = self.clone();
        let mut n = 0;
        while c.pop_value_stack().is_some() {
            n += 1;
            if n > 1_000_000 {
                break;
            }
        }
        n
    }
    /// all value-stack entries, bottom first, through the public API on a clone
    fn value_stack_entries(&self) -> Vec<usize> {
        let mut c = self.clone();
        let mut v = vec![];
        while let Some(x) = c.pop_value_stack() {
            v.push(x);
            if v.len() > 1_000_000 {
                break;
            }
        }
        v.reverse();
        v
    }
    /// frame return addresses, innermost first, through the public API on a clone
    fn frame_returns(&self) -> Vec<usize> {
        let mut c = self.clone();
        let mut v = vec![];
        while let Ok(Some(x)) = c.pop_frame() {
            v.push(x);
            if v.len() > 1_000_000 {
                break;
            }
        }
        v
    }
}

pub type Simple = SimpleGarnishData<NoCustom, ()>;
pub type Basic = BasicGarnishData<(), NoOpCompanion>;

impl Store for Simple {
    const NAME: &'static str = "simple";
    const FRAMES_IN_REGISTERS: bool = true;
    fn fresh() -> Self {
        SimpleGarnishData::new()
    }
    fn symbol_name(&self, sym: u64) -> Option<String> {
        self.get_symbols().get(&sym).cloned()
    }
    fn value_stack_depth(&self) -> usize {
        self.get_value_stack_len()
    }
}

impl Store for Basic {
    const NAME: &'static str = "basic";
    const FRAMES_IN_REGISTERS: bool = false;
    fn fresh() -> Self {
        BasicGarnishData::new(NoOpCompanion::new()).expect("BasicGarnishData::new")
    }
    fn symbol_name(&self, sym: u64) -> Option<String> {
        // get_symbol_string can panic on malformed tables; callers guard
        self.get_symbol_string(sym).ok().flatten()
    }
}
