//! Reference evaluator: an independent big-step interpreter over the core-language AST (S-rules of
//! DESIGN §3.4). It never sees tokens, parse nodes, instructions, registers or jump tables.
//! Outside the pinned semantics it answers `V::Unknown` (poison), which is never compared.

use crate::ast::{Bin, Un, E};
use crate::props::c09::{reference as num_ref, Op as NumOp, Want};
use crate::props::c11::ref_eq;
use crate::value::{SymPart, V};
use garnish_lang_simple_data::{symbol_value, SimpleNumber as N};
use garnish_lang_traits::GarnishDataType as T;
use std::collections::HashMap;

#[derive(Clone, Debug, PartialEq)]
pub enum HostEv {
    Resolve(u64),
    Apply(usize, V),
}

pub struct Host {
    /// symbols the host resolves and the value it answers
    pub resolve: HashMap<u64, V>,
    /// whether the host accepts external applies (answering `apply_sentinel`) or declines them
    pub apply_accept: bool,
    pub log: Vec<HostEv>,
}

pub enum Stop {
    /// `^~ v`: restart the innermost enclosing expression (or the program) with `$ := v`
    Restart(V),
    /// evaluation budget exhausted (runaway loop in a generated program)
    Budget,
}

pub struct Ev<'a, 'e> {
    pub host: &'a mut Host,
    pub steps: u64,
    pub max_steps: u64,
    /// bodies of nested expressions in order of first evaluation of their `{`: the index is the
    /// identity of an expression value
    pub exprs: Vec<&'e E>,
    /// some evaluated sub-expression lies outside the pinned semantics (even if its value was discarded)
    pub tainted: bool,
    /// how often an undefined combination was offered to the host (`defer_op`)
    pub defers: u64,
}

fn num(v: &V) -> Option<N> {
    v.as_num()
}

fn want_to_v(w: Want) -> V {
    match w {
        Want::Unit => V::Unit,
        Want::Int(i) => V::Int(i),
        Want::Float(f) => V::Float(f),
        // the statement leaves a choice: do not pin it here
        Want::UnitOrInt(_) | Want::IntOrFloat(..) | Want::UnitOrFloat(_) => V::Unknown,
    }
}

pub fn truthy(v: &V) -> bool {
    !matches!(v, V::Unit | V::False)
}

fn sym_lookup(container: &V, s: u64) -> Option<Option<V>> {
    // Some(Some(v)) found, Some(None) defined-but-absent, None = no keyed lookup for this type
    match container {
        V::Pair(k, v) => Some(if **k == V::Sym(s) { Some((**v).clone()) } else { None }),
        V::List(items) => {
            let mut found = None;
            let mut n = 0;
            for it in items {
                if let V::Pair(k, v) = it {
                    if **k == V::Sym(s) {
                        found = Some((**v).clone());
                        n += 1;
                    }
                }
            }
            if n > 1 {
                // duplicate keys: which one wins is not pinned
                return Some(Some(V::Unknown));
            }
            Some(found)
        }
        V::Concat(..) => {
            let items = container.flat_items();
            let mut found = None;
            let mut n = 0;
            for it in items {
                if let V::Pair(k, v) = it {
                    if **k == V::Sym(s) {
                        found = Some((**v).clone());
                        n += 1;
                    }
                }
            }
            if n > 1 {
                return Some(Some(V::Unknown));
            }
            Some(found)
        }
        V::Slice(inner, range) => {
            // the sliced positions are start..=end of the stored range; among the keyed pairs found there
            // the one closest to the end wins (both slice arms of the runtime say so explicitly)
            let (s0, e0) = match &**range {
                V::Range(a, b) => match (&**a, &**b) {
                    (V::Int(a), V::Int(b)) if *a >= 0 && *b >= *a => (*a as usize, *b as usize),
                    _ => return Some(Some(V::Unknown)),
                },
                _ => return Some(Some(V::Unknown)),
            };
            let items: Vec<&V> = match &**inner {
                V::List(xs) => xs.iter().collect(),
                V::Concat(..) => inner.flat_items(),
                // text, bytes and symbol lists hold no keyed pairs: no keyed lookup, like the unsliced value
                V::CharList(_) | V::ByteList(_) | V::SymList(_) => return None,
                _ => return Some(Some(V::Unknown)),
            };
            let mut found = None;
            for (i, it) in items.iter().enumerate() {
                if i < s0 || i > e0 {
                    continue;
                }
                if let V::Pair(k, v) = it {
                    if **k == V::Sym(s) {
                        found = Some((**v).clone());
                    }
                }
            }
            Some(found)
        }
        _ => None,
    }
}

fn int_index(container: &V, idx: &V) -> V {
    let i = match idx {
        V::Int(i) => *i as i64,
        V::Float(_) => return V::Unknown,
        _ => return V::Unknown,
    };
    match container {
        V::Pair(k, _) => {
            if i == 0 && matches!(**k, V::Sym(_)) {
                container.clone()
            } else {
                V::Unit
            }
        }
        V::List(items) => {
            if i < 0 || i as usize >= items.len() {
                V::Unit
            } else {
                items[i as usize].clone()
            }
        }
        V::CharList(s) => {
            if i < 0 {
                return V::Unit;
            }
            match s.chars().nth(i as usize) {
                Some(c) => V::Char(c),
                None => V::Unit,
            }
        }
        V::ByteList(b) => {
            if i < 0 || i as usize >= b.len() {
                V::Unit
            } else {
                V::Byte(b[i as usize])
            }
        }
        V::Concat(..) => {
            let items = container.flat_items();
            if i < 0 || i as usize >= items.len() {
                V::Unit
            } else {
                items[i as usize].clone()
            }
        }
        V::SymList(parts) => {
            if i < 0 || i as usize >= parts.len() {
                V::Unit
            } else {
                match &parts[i as usize] {
                    SymPart::Sym(s) => V::Sym(*s),
                    SymPart::Num(n) => n.clone(),
                }
            }
        }
        V::Slice(inner, range) => {
            // position start+i of the sliced value; only positions inside the slice are pinned
            let (s0, e0) = match &**range {
                V::Range(a, b) => match (&**a, &**b) {
                    (V::Int(a), V::Int(b)) if *a >= 0 && *b >= *a => (*a as i64, *b as i64),
                    _ => return V::Unknown,
                },
                _ => return V::Unknown,
            };
            if i < 0 || s0 + i > e0 || s0 + i > i32::MAX as i64 {
                return V::Unknown;
            }
            match &**inner {
                V::List(_) | V::CharList(_) | V::ByteList(_) | V::Concat(..) | V::SymList(_) => int_index(inner, &V::Int((s0 + i) as i32)),
                _ => V::Unknown,
            }
        }
        V::Range(..) => V::Unknown,
        _ => V::Unknown,
    }
}

impl<'a, 'e> Ev<'a, 'e> {
    pub fn new(host: &'a mut Host, max_steps: u64) -> Self {
        Ev { host, steps: 0, max_steps, exprs: vec![], tainted: false, defers: 0 }
    }

    fn tick(&mut self) -> Result<(), Stop> {
        self.steps += 1;
        if self.steps > self.max_steps { Err(Stop::Budget) } else { Ok(()) }
    }

    /// evaluate a whole program with input value `input`
    pub fn program(&mut self, e: &'e E, input: V) -> Result<V, Stop> {
        let mut cur = input;
        loop {
            let mut scope = cur.clone();
            match self.eval(e, &mut scope) {
                Ok(v) => return Ok(v),
                Err(Stop::Restart(v)) => {
                    self.tick()?;
                    cur = v;
                }
                Err(s) => return Err(s),
            }
        }
    }

    fn call(&mut self, expr_id: usize, arg: V) -> Result<V, Stop> {
        let body: &'e E = self.exprs[expr_id];
        let mut cur = arg;
        loop {
            let mut scope = cur.clone();
            match self.eval(body, &mut scope) {
                Ok(v) => return Ok(v),
                Err(Stop::Restart(v)) => {
                    self.tick()?;
                    cur = v;
                }
                Err(s) => return Err(s),
            }
        }
    }

    fn defer(&mut self) -> V {
        self.defers += 1;
        // undefined combination: offered to the host, which declines in every program-level check
        V::Unit
    }

    fn arith(&mut self, op: NumOp, a: &V, b: &V) -> V {
        if a.has_unknown() || b.has_unknown() {
            return V::Unknown;
        }
        match (num(a), num(b)) {
            (Some(x), Some(y)) => want_to_v(num_ref(op, x, y)),
            _ => self.defer(),
        }
    }

    fn apply(&mut self, f: &V, arg: V) -> Result<V, Stop> {
        if f.has_unknown() {
            return Ok(V::Unknown);
        }
        Ok(match (f, &arg) {
            (V::Expr(id), _) => self.call(*id, arg)?,
            (V::External(n), _) => {
                self.host.log.push(HostEv::Apply(*n, arg.clone()));
                if self.host.apply_accept { crate::mon::apply_sentinel(*n, &arg) } else { V::Unit }
            }
            // a partial application runs its expression with `input <> argument`; a partial application of
            // anything else yields unit (the host is not consulted: the receiver is not applied at all)
            (V::Partial(recv, inp), _) => match &**recv {
                V::Expr(id) => {
                    if arg.has_unknown() {
                        return Ok(V::Unknown);
                    }
                    self.call(*id, V::Concat(inp.clone(), Box::new(arg.clone())))?
                }
                _ => V::Unit,
            },
            (V::List(_) | V::Pair(..), V::Int(_)) => int_index(f, &arg),
            (V::SymList(_), V::Int(_)) => int_index(f, &arg),
            (V::List(_) | V::Pair(..), V::Sym(s)) => match sym_lookup(f, *s) {
                Some(Some(v)) => v,
                _ => V::Unit,
            },
            (V::List(_) | V::Pair(..) | V::SymList(_), V::Float(_)) => V::Unknown,
            (V::Sym(_) | V::SymList(_), V::Sym(_) | V::SymList(_)) if !(matches!(f, V::Sym(_)) && matches!(arg, V::Sym(_))) => V::Unknown,
            (V::List(_), V::SymList(_)) => V::Unknown,
            (_, V::Range(..)) | (V::Range(..), _) | (V::Slice(..), _) => V::Unknown,
            _ => {
                if arg.has_unknown() {
                    V::Unknown
                } else {
                    self.defer()
                }
            }
        })
    }

    pub fn eval(&mut self, e: &'e E, scope: &mut V) -> Result<V, Stop> {
        let v = self.eval_inner(e, scope)?;
        if matches!(v, V::Unknown) {
            self.tainted = true;
        }
        Ok(v)
    }

    fn eval_inner(&mut self, e: &'e E, scope: &mut V) -> Result<V, Stop> {
        self.tick()?;
        Ok(match e {
            E::Int(i) => V::Int(*i),
            E::Float(f) => V::Float(*f),
            E::Str(s) => V::CharList(s.clone()),
            E::Sym(s) | E::Prop(s) => V::Sym(symbol_value(s)),
            E::Unit => V::Unit,
            E::True => V::True,
            E::False => V::False,
            E::Input => scope.clone(),
            E::Ident(name) => {
                let s = symbol_value(name);
                if scope.has_unknown() {
                    return Ok(V::Unknown);
                }
                match sym_lookup(scope, s) {
                    Some(Some(v)) => v,
                    _ => {
                        self.host.log.push(HostEv::Resolve(s));
                        match self.host.resolve.get(&s) {
                            Some(v) => v.clone(),
                            None => V::Unit,
                        }
                    }
                }
            }
            E::Group(x) => self.eval(x, scope)?,
            E::Nested(body) => {
                let p: &'e E = &**body;
                let id = match self.exprs.iter().position(|q| std::ptr::eq(*q, p)) {
                    Some(i) => i,
                    None => {
                        self.exprs.push(p);
                        self.exprs.len() - 1
                    }
                };
                V::Expr(id)
            }
            E::Reapply(x) => {
                let v = self.eval(x, scope)?;
                return Err(Stop::Restart(v));
            }
            E::Effect(v, body) => {
                let val = self.eval(v, scope)?;
                // the block runs on a copy of `$`: nothing it does to `$` is visible outside
                let mut copy = scope.clone();
                let _ = self.eval(body, &mut copy)?;
                val
            }
            E::Seq(xs, _) => {
                let mut last = V::Unit;
                for (i, x) in xs.iter().enumerate() {
                    last = self.eval(x, scope)?;
                    if i + 1 < xs.len() {
                        *scope = last.clone();
                    }
                }
                last
            }
            E::List(xs) => {
                let mut items = vec![];
                for x in xs {
                    items.push(self.eval(x, scope)?);
                }
                V::List(items)
            }
            E::Comma(xs, _) => {
                let mut items = vec![];
                for x in xs {
                    items.push(self.eval(x, scope)?);
                }
                V::List(items)
            }
            E::Cond(arms, els) => {
                for (neg, c, a) in arms {
                    let cv = self.eval(c, scope)?;
                    if cv.has_unknown() {
                        return Ok(V::Unknown);
                    }
                    if truthy(&cv) != *neg {
                        return self.eval(a, scope);
                    }
                }
                match els {
                    Some(e) => self.eval(e, scope)?,
                    None => {
                        if arms.len() > 1 {
                            // chain ending in a conditional that fails: known finding C06-KF6, not pinned
                            V::Unknown
                        } else {
                            scope.clone()
                        }
                    }
                }
            }
            E::Un(u, x) => {
                let v = self.eval(x, scope)?;
                if v.has_unknown() && !matches!(u, Un::Not | Un::Tis | Un::TypeOf) {
                    return Ok(V::Unknown);
                }
                match u {
                    Un::Abs => match num(&v) {
                        Some(n) => want_to_v(num_ref(NumOp::Abs, n, N::Integer(0))),
                        None => self.defer(),
                    },
                    Un::Neg => match num(&v) {
                        Some(n) => want_to_v(num_ref(NumOp::Neg, n, N::Integer(0))),
                        None => self.defer(),
                    },
                    Un::BNot => match num(&v) {
                        Some(n) => want_to_v(num_ref(NumOp::BNot, n, N::Integer(0))),
                        None => self.defer(),
                    },
                    Un::Not => {
                        if matches!(v, V::Unknown) {
                            V::Unknown
                        } else {
                            V::boolean(!truthy(&v))
                        }
                    }
                    Un::Tis => {
                        if matches!(v, V::Unknown) {
                            V::Unknown
                        } else {
                            V::boolean(truthy(&v))
                        }
                    }
                    Un::TypeOf => {
                        if matches!(v, V::Unknown) {
                            V::Unknown
                        } else {
                            V::Type(v.type_of())
                        }
                    }
                    Un::LeftInternal => match &v {
                        V::Pair(a, _) => (**a).clone(),
                        V::Concat(a, _) => (**a).clone(),
                        V::Range(..) | V::Slice(..) => V::Unknown,
                        _ => self.defer(),
                    },
                    Un::RightInternal => match &v {
                        V::Pair(_, b) => (**b).clone(),
                        V::Concat(_, b) => (**b).clone(),
                        V::Range(..) | V::Slice(..) => V::Unknown,
                        _ => self.defer(),
                    },
                    Un::LengthInternal => match &v {
                        V::Pair(k, _) => {
                            if matches!(**k, V::Sym(_)) {
                                V::Int(1)
                            } else {
                                V::Unit
                            }
                        }
                        V::List(xs) => V::Int(xs.len() as i32),
                        V::CharList(s) => V::Int(s.chars().count() as i32),
                        V::ByteList(b) => V::Int(b.len() as i32),
                        V::Concat(..) => V::Int(v.flat_items().len() as i32),
                        V::Range(..) | V::Slice(..) => V::Unknown,
                        _ => self.defer(),
                    },
                    Un::EmptyApply => match &v {
                        V::Expr(id) => self.call(*id, V::Unit)?,
                        V::External(n) => {
                            self.host.log.push(HostEv::Apply(*n, V::Unit));
                            if self.host.apply_accept { crate::mon::apply_sentinel(*n, &V::Unit) } else { V::Unit }
                        }
                        V::Partial(recv, inp) => match &**recv {
                            V::Expr(id) => self.call(*id, (**inp).clone())?,
                            _ => V::Unit,
                        },
                        _ => self.defer(),
                    },
                }
            }
            E::Bin(b, l, r) => {
                match b {
                    Bin::And => {
                        let lv = self.eval(l, scope)?;
                        if lv.has_unknown() {
                            return Ok(V::Unknown);
                        }
                        if !truthy(&lv) {
                            return Ok(V::False);
                        }
                        let rv = self.eval(r, scope)?;
                        if matches!(rv, V::Unknown) {
                            return Ok(V::Unknown);
                        }
                        return Ok(V::boolean(truthy(&rv)));
                    }
                    Bin::Or => {
                        let lv = self.eval(l, scope)?;
                        if lv.has_unknown() {
                            return Ok(V::Unknown);
                        }
                        if truthy(&lv) {
                            return Ok(V::True);
                        }
                        let rv = self.eval(r, scope)?;
                        if matches!(rv, V::Unknown) {
                            return Ok(V::Unknown);
                        }
                        return Ok(V::boolean(truthy(&rv)));
                    }
                    _ => {}
                }
                // operand order as emitted by the builder: pair and apply-to right first
                let (lv, rv) = if matches!(b, Bin::Pair | Bin::ApplyTo) {
                    let rv = self.eval(r, scope)?;
                    let lv = self.eval(l, scope)?;
                    (lv, rv)
                } else {
                    let lv = self.eval(l, scope)?;
                    let rv = self.eval(r, scope)?;
                    (lv, rv)
                };
                match b {
                    Bin::Add => self.arith(NumOp::Add, &lv, &rv),
                    Bin::Sub => self.arith(NumOp::Sub, &lv, &rv),
                    Bin::Mul => self.arith(NumOp::Mul, &lv, &rv),
                    Bin::Div => self.arith(NumOp::Div, &lv, &rv),
                    Bin::IDiv => self.arith(NumOp::IDiv, &lv, &rv),
                    Bin::Rem => self.arith(NumOp::Rem, &lv, &rv),
                    Bin::Pow => self.arith(NumOp::Pow, &lv, &rv),
                    Bin::BAnd => self.arith(NumOp::BAnd, &lv, &rv),
                    Bin::BOr => self.arith(NumOp::BOr, &lv, &rv),
                    Bin::BXor => self.arith(NumOp::BXor, &lv, &rv),
                    Bin::Shl => self.arith(NumOp::Shl, &lv, &rv),
                    Bin::Shr => self.arith(NumOp::Shr, &lv, &rv),
                    Bin::Lt | Bin::Le | Bin::Gt | Bin::Ge => {
                        if lv.has_unknown() || rv.has_unknown() {
                            return Ok(V::Unknown);
                        }
                        use std::cmp::Ordering as O;
                        let ord: Option<Option<O>> = match (&lv, &rv) {
                            (V::Int(_) | V::Float(_), V::Int(_) | V::Float(_)) => {
                                let f = |v: &V| match v {
                                    V::Int(i) => *i as f64,
                                    V::Float(f) => *f,
                                    _ => 0.0,
                                };
                                Some(f(&lv).partial_cmp(&f(&rv)))
                            }
                            (V::Char(a), V::Char(c)) => Some(Some(a.cmp(c))),
                            (V::Byte(a), V::Byte(c)) => Some(Some(a.cmp(c))),
                            (V::CharList(a), V::CharList(c)) => Some(Some(a.chars().cmp(c.chars()))),
                            (V::ByteList(a), V::ByteList(c)) => Some(Some(a.cmp(c))),
                            (V::Slice(..), V::Slice(..)) => return Ok(V::Unknown),
                            _ => None,
                        };
                        match ord {
                            None => V::False,
                            Some(None) => V::Unit,
                            Some(Some(o)) => V::boolean(match b {
                                Bin::Lt => o.is_lt(),
                                Bin::Le => o.is_le(),
                                Bin::Gt => o.is_gt(),
                                _ => o.is_ge(),
                            }),
                        }
                    }
                    Bin::Eq | Bin::Ne => {
                        if lv.has_unknown() || rv.has_unknown() {
                            return Ok(V::Unknown);
                        }
                        fn exotic(v: &V) -> bool {
                            match v {
                                V::Range(..) | V::Slice(..) | V::Partial(..) | V::Float(_) if matches!(v, V::Float(f) if f.is_nan()) => true,
                                V::Range(..) | V::Slice(..) | V::Partial(..) => true,
                                V::Pair(a, b) | V::Concat(a, b) => exotic(a) || exotic(b),
                                V::List(xs) => xs.iter().any(exotic),
                                _ => false,
                            }
                        }
                        if exotic(&lv) || exotic(&rv) {
                            return Ok(V::Unknown);
                        }
                        let eq = ref_eq(&lv, &rv);
                        V::boolean(if *b == Bin::Eq { eq } else { !eq })
                    }
                    Bin::Xor => {
                        if matches!(lv, V::Unknown) || matches!(rv, V::Unknown) {
                            return Ok(V::Unknown);
                        }
                        V::boolean(truthy(&lv) != truthy(&rv))
                    }
                    Bin::Pair => V::pair(lv, rv),
                    Bin::Partial => {
                        if lv.has_unknown() || rv.has_unknown() {
                            return Ok(V::Unknown);
                        }
                        V::Partial(Box::new(lv), Box::new(rv))
                    }
                    Bin::Concat => {
                        if lv.has_unknown() || rv.has_unknown() {
                            return Ok(V::Unknown);
                        }
                        V::Concat(Box::new(lv), Box::new(rv))
                    }
                    Bin::Access => {
                        if lv.has_unknown() || rv.has_unknown() {
                            return Ok(V::Unknown);
                        }
                        match (&lv, &rv) {
                            (V::Sym(a), V::Sym(c)) => V::SymList(vec![SymPart::Sym(*a), SymPart::Sym(*c)]),
                            (V::Sym(_) | V::SymList(_), V::Sym(_) | V::SymList(_)) => V::Unknown,
                            (V::Sym(_) | V::SymList(_), V::Int(_) | V::Float(_)) | (V::Int(_) | V::Float(_), V::Sym(_) | V::SymList(_)) => V::Unknown,
                            (V::Pair(..) | V::List(_) | V::CharList(_) | V::ByteList(_) | V::Concat(..), V::Int(_) | V::Float(_)) => int_index(&lv, &rv),
                            (V::Slice(..), V::Int(_)) => int_index(&lv, &rv),
                            (V::Slice(..), V::Sym(s)) => match sym_lookup(&lv, *s) {
                                Some(Some(v)) => v,
                                Some(None) => V::Unit,
                                None => self.defer(),
                            },
                            (V::Range(..) | V::Slice(..), _) => V::Unknown,
                            (V::Pair(..) | V::List(_) | V::Concat(..), V::Sym(s)) => match sym_lookup(&lv, *s) {
                                Some(Some(v)) => v,
                                _ => V::Unit,
                            },
                            _ => self.defer(),
                        }
                    }
                    Bin::Apply => self.apply(&lv, rv)?,
                    Bin::ApplyTo => self.apply(&rv, lv)?,
                    Bin::And | Bin::Or => unreachable!(),
                }
            }
        })
    }
}

pub fn type_name(t: T) -> String {
    format!("{:?}", t)
}
