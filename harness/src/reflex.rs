//! Reference lexer: a position-based maximal-munch scanner over a pinned copy of the token table
//! (DESIGN Appendix E). Used as the oracle of C13 and to decide where layout may change (C18).

use garnish_lang_compiler::lex::TokenType as T;

pub const OPERATORS: [(&str, T); 60] = [
    ("+", T::PlusSign),
    ("++", T::AbsoluteValue),
    ("-", T::Subtraction),
    ("--", T::Opposite),
    ("*", T::MultiplicationSign),
    ("**", T::ExponentialSign),
    ("/", T::Division),
    ("//", T::IntegerDivision),
    ("%", T::Remainder),
    ("!", T::BitwiseNot),
    ("&", T::BitwiseAnd),
    ("|", T::BitwiseOr),
    ("^", T::BitwiseXor),
    ("<<", T::BitwiseLeftShift),
    (">>", T::BitwiseRightShift),
    ("&&", T::And),
    ("||", T::Or),
    ("^^", T::Xor),
    ("!!", T::Not),
    ("??", T::Tis),
    ("()", T::UnitLiteral),
    ("{", T::StartExpression),
    ("}", T::EndExpression),
    ("(", T::StartGroup),
    (")", T::EndGroup),
    ("[", T::StartSideEffect),
    ("]", T::EndSideEffect),
    ("$", T::Value),
    ("$?", T::True),
    ("$!", T::False),
    (",", T::Comma),
    ("!>", T::JumpIfFalse),
    ("?>", T::JumpIfTrue),
    ("|>", T::ElseJump),
    ("<~", T::Apply),
    ("~>", T::ApplyTo),
    ("~", T::PartialApply),
    ("^~", T::Reapply),
    ("~~", T::EmptyApply),
    ("#", T::TypeOf),
    ("~#", T::TypeCast),
    ("#=", T::TypeEqual),
    ("==", T::Equality),
    ("!=", T::Inequality),
    ("<", T::LessThan),
    ("<=", T::LessThanOrEqual),
    (">", T::GreaterThan),
    (">=", T::GreaterThanOrEqual),
    ("=", T::Pair),
    (".", T::Period),
    ("._", T::RightInternal),
    ("_.", T::LeftInternal),
    (".|", T::LengthInternal),
    ("<>", T::Concatenation),
    ("..", T::Range),
    (">..", T::StartExclusiveRange),
    ("..<", T::EndExclusiveRange),
    (">..<", T::ExclusiveRange),
    (";;", T::ExpressionTerminator),
    (";", T::ExpressionSeparator),
];

#[derive(Clone, Debug, PartialEq)]
pub struct RTok {
    pub text: String,
    pub ty: T,
    pub line: usize,
    pub col: usize,
    /// char offset of the first character
    pub at: usize,
}

#[derive(Clone, Debug, PartialEq)]
pub enum RLex {
    Tokens(Vec<RTok>),
    /// a character that can neither start nor continue any token: `lex` must fail
    Invalid(char, usize),
    /// not a token sequence for another reason (unterminated literal, lone `_`/`:`/`?`, ...)
    Unlexable(String),
}

pub fn is_ident_char(c: char) -> bool {
    c.is_alphanumeric() || c == '_' || c == ':'
}

fn is_op_prefix(s: &str) -> bool {
    OPERATORS.iter().any(|(o, _)| o.starts_with(s))
}
fn op_type(s: &str) -> Option<T> {
    OPERATORS.iter().find(|(o, _)| *o == s).map(|x| x.1)
}

pub fn can_start_token(c: char) -> bool {
    c == ' ' || c == '\t' || c == '\r' || c.is_ascii_whitespace() || c.is_numeric() || is_ident_char(c) || c == '`' || c == '@' || c == '"' || c == '\'' || is_op_prefix(&c.to_string())
}

fn no_float_after(t: T) -> bool {
    matches!(t, T::Value | T::CharList | T::ByteList | T::Identifier | T::Period | T::Number)
}

pub fn reflex(input: &str) -> RLex {
    let s: Vec<char> = input.chars().collect();
    let n = s.len();
    let mut p = 0usize;
    let mut toks: Vec<RTok> = vec![];
    let mut line = 0usize;
    let mut col = 0usize;
    let mut can_float = true;
    while p < n {
        let c = s[p];
        let start = p;
        let ty: T;
        if c == ' ' || c == '\t' || c == '\n' || c == '\r' || c == '\x0C' {
            // gap: a maximal run of blank characters; it is a sub-expression separator iff it holds
            // two line breaks (how the run is cut into tokens is not pinned, see C13)
            while p < n && (s[p] == ' ' || s[p] == '\t' || s[p] == '\n' || s[p] == '\r' || s[p] == '\x0C') {
                p += 1;
            }
            let nl = s[start..p].iter().filter(|c| **c == '\n' || **c == '\x0C').count();
            ty = if nl >= 2 { T::Subexpression } else { T::Whitespace };
        } else if c == '"' || c == '\'' {
            let mut q = 0;
            while p + q < n && s[p + q] == c {
                q += 1;
            }
            if q == 2 {
                p += 2;
            } else {
                let mut i = p + q;
                let mut run = 0;
                let mut end = None;
                while i < n {
                    if s[i] == c {
                        run += 1;
                        if run == q {
                            end = Some(i + 1);
                            break;
                        }
                    } else {
                        run = 0;
                    }
                    i += 1;
                }
                match end {
                    Some(e) => p = e,
                    None => return RLex::Unlexable(format!("unterminated literal starting at {}", start)),
                }
            }
            ty = if c == '"' { T::CharList } else { T::ByteList };
        } else if c == '@' {
            if p + 1 < n && s[p + 1] == '@' {
                p += 2;
                while p < n && s[p] != '\n' {
                    p += 1;
                }
                if p < n {
                    p += 1; // the line break belongs to the annotation
                }
                ty = T::LineAnnotation;
            } else {
                p += 1;
                while p < n && (s[p].is_alphanumeric() || s[p] == '_') {
                    p += 1;
                }
                ty = T::Annotation;
            }
        } else if c.is_numeric() || (c == '.' && can_float && p + 1 < n && s[p + 1].is_numeric()) {
            if c == '.' {
                p += 1;
                while p < n && (s[p].is_alphanumeric() || s[p] == '_') {
                    p += 1;
                }
            } else {
                while p < n && (s[p].is_alphanumeric() || s[p] == '_') {
                    p += 1;
                }
                if can_float && p < n && s[p] == '.' && !(p + 1 < n && s[p + 1] == '.') {
                    p += 1;
                    while p < n && (s[p].is_alphanumeric() || s[p] == '_') {
                        p += 1;
                    }
                }
            }
            ty = T::Number;
        } else if c == '`' {
            p += 1;
            while p < n && is_ident_char(s[p]) {
                p += 1;
            }
            if p < n && s[p] == '`' {
                p += 1;
                ty = T::InfixIdentifier;
            } else {
                ty = T::SuffixIdentifier;
            }
        } else if is_ident_char(c) && !(c == '_' && p + 1 < n && s[p + 1] == '.') {
            while p < n && is_ident_char(s[p]) {
                p += 1;
            }
            let text: String = s[start..p].iter().collect();
            if p < n && s[p] == '`' {
                p += 1;
                ty = T::PrefixIdentifier;
            } else if text == "_" {
                return RLex::Unlexable(format!("lone {:?} at {}", text, start));
            } else if text.starts_with(':') && !text[1..].starts_with(':') {
                // includes the lone `:` (the empty-named symbol): the property does not demand its rejection
                ty = T::Symbol;
            } else {
                ty = T::Identifier;
            }
        } else if is_op_prefix(&c.to_string()) {
            // greedy walk of the operator table, as far as a spelling continues
            let mut cur = String::new();
            cur.push(c);
            p += 1;
            while p < n {
                let mut nxt = cur.clone();
                nxt.push(s[p]);
                if is_op_prefix(&nxt) {
                    cur = nxt;
                    p += 1;
                } else {
                    break;
                }
            }
            match op_type(&cur) {
                Some(t) => ty = t,
                None => return RLex::Unlexable(format!("{:?} at {} is a proper prefix of an operator only", cur, start)),
            }
        } else {
            return RLex::Invalid(c, p);
        }
        let text: String = s[start..p].iter().collect();
        toks.push(RTok { text: text.clone(), ty, line, col, at: start });
        for ch in text.chars() {
            if ch == '\n' {
                line += 1;
                col = 0;
            } else {
                col += 1;
            }
        }
        if ty != T::Whitespace && ty != T::Subexpression {
            can_float = !no_float_after(ty);
        } else {
            can_float = true;
        }
    }
    RLex::Tokens(toks)
}

pub fn is_gap(t: T) -> bool {
    t == T::Whitespace || t == T::Subexpression
}
