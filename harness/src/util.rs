//! Dependency-free helpers: PRNG, JSON value + writer, FNV hash, panic capture.

use std::cell::RefCell;
use std::collections::BTreeMap;
use std::fmt::Write as _;

// ---------------------------------------------------------------- PRNG

#[derive(Clone)]
pub struct Rng(pub u64);

impl Rng {
    pub fn new(seed: u64) -> Self {
        Rng(seed ^ 0x9E37_79B9_7F4A_7C15)
    }
    /// derive an independent stream for case `i`
    pub fn for_case(seed: u64, i: u64) -> Self {
        let mut r = Rng(seed.wrapping_mul(0xD6E8_FEB8_6659_FD93) ^ i.wrapping_mul(0x9E37_79B9_7F4A_7C15));
        r.next();
        r.next();
        r
    }
    pub fn next(&mut self) -> u64 {
        self.0 = self.0.wrapping_add(0x9E37_79B9_7F4A_7C15);
        let mut z = self.0;
        z = (z ^ (z >> 30)).wrapping_mul(0xBF58_476D_1CE4_E5B9);
        z = (z ^ (z >> 27)).wrapping_mul(0x94D0_49BB_1331_11EB);
        z ^ (z >> 31)
    }
    pub fn below(&mut self, n: usize) -> usize {
        if n == 0 {
            0
        } else {
            (self.next() % n as u64) as usize
        }
    }
    pub fn range(&mut self, lo: i64, hi: i64) -> i64 {
        lo + (self.next() % ((hi - lo + 1) as u64)) as i64
    }
    pub fn chance(&mut self, num: u32, den: u32) -> bool {
        (self.next() % den as u64) < num as u64
    }
    pub fn pick<'a, T>(&mut self, xs: &'a [T]) -> &'a T {
        &xs[self.below(xs.len())]
    }
}

// ---------------------------------------------------------------- hash

pub fn fnv(bytes: &[u8]) -> u64 {
    let mut h: u64 = 0xcbf29ce484222325;
    for b in bytes {
        h ^= *b as u64;
        h = h.wrapping_mul(0x100000001b3);
    }
    h
}

pub fn fnv_str(s: &str) -> u64 {
    fnv(s.as_bytes())
}

// ---------------------------------------------------------------- JSON

#[derive(Clone, Debug, PartialEq)]
pub enum Json {
    Null,
    Bool(bool),
    Int(i64),
    Float(f64),
    Str(String),
    Arr(Vec<Json>),
    Obj(BTreeMap<String, Json>),
}

impl Json {
    pub fn obj() -> Json {
        Json::Obj(BTreeMap::new())
    }
    pub fn set(&mut self, k: &str, v: Json) -> &mut Self {
        if let Json::Obj(m) = self {
            m.insert(k.to_string(), v);
        }
        self
    }
    pub fn with(mut self, k: &str, v: Json) -> Self {
        self.set(k, v);
        self
    }
    pub fn s(x: impl Into<String>) -> Json {
        Json::Str(x.into())
    }
    pub fn i(x: impl TryInto<i64>) -> Json {
        Json::Int(x.try_into().unwrap_or(i64::MAX))
    }
    pub fn get(&self, k: &str) -> Option<&Json> {
        match self {
            Json::Obj(m) => m.get(k),
            _ => None,
        }
    }
    pub fn as_str(&self) -> Option<&str> {
        match self {
            Json::Str(s) => Some(s),
            _ => None,
        }
    }
    pub fn as_i64(&self) -> Option<i64> {
        match self {
            Json::Int(i) => Some(*i),
            Json::Float(f) => Some(*f as i64),
            _ => None,
        }
    }
    pub fn as_arr(&self) -> Option<&Vec<Json>> {
        match self {
            Json::Arr(a) => Some(a),
            _ => None,
        }
    }
    pub fn to_string(&self) -> String {
        let mut s = String::new();
        self.write(&mut s);
        s
    }
    fn write(&self, out: &mut String) {
        match self {
            Json::Null => out.push_str("null"),
            Json::Bool(b) => out.push_str(if *b { "true" } else { "false" }),
            Json::Int(i) => {
                let _ = write!(out, "{}", i);
            }
            Json::Float(f) => {
                if f.is_finite() {
                    let _ = write!(out, "{:?}", f);
                } else {
                    let _ = write!(out, "\"{:?}\"", f);
                }
            }
            Json::Str(s) => write_str(out, s),
            Json::Arr(a) => {
                out.push('[');
                for (i, x) in a.iter().enumerate() {
                    if i > 0 {
                        out.push(',');
                    }
                    x.write(out);
                }
                out.push(']');
            }
            Json::Obj(m) => {
                out.push('{');
                for (i, (k, v)) in m.iter().enumerate() {
                    if i > 0 {
                        out.push(',');
                    }
                    write_str(out, k);
                    out.push(':');
                    v.write(out);
                }
                out.push('}');
            }
        }
    }

    // minimal parser (for replay files)
    pub fn parse(s: &str) -> Result<Json, String> {
        let b: Vec<char> = s.chars().collect();
        let mut p = 0usize;
        let v = parse_val(&b, &mut p)?;
        skip_ws(&b, &mut p);
        if p != b.len() {
            return Err(format!("trailing data at {}", p));
        }
        Ok(v)
    }
}

fn write_str(out: &mut String, s: &str) {
    out.push('"');
    for c in s.chars() {
        match c {
            '"' => out.push_str("\\\""),
            '\\' => out.push_str("\\\\"),
            '\n' => out.push_str("\\n"),
            '\r' => out.push_str("\\r"),
            '\t' => out.push_str("\\t"),
            c if (c as u32) < 0x20 => {
                let _ = write!(out, "\\u{:04x}", c as u32);
            }
            c => out.push(c),
        }
    }
    out.push('"');
}

fn skip_ws(b: &[char], p: &mut usize) {
    while *p < b.len() && b[*p].is_whitespace() {
        *p += 1;
    }
}

fn parse_val(b: &[char], p: &mut usize) -> Result<Json, String> {
    skip_ws(b, p);
    if *p >= b.len() {
        return Err("eof".into());
    }
    match b[*p] {
        'n' => {
            *p += 4;
            Ok(Json::Null)
        }
        't' => {
            *p += 4;
            Ok(Json::Bool(true))
        }
        'f' => {
            *p += 5;
            Ok(Json::Bool(false))
        }
        '"' => Ok(Json::Str(parse_string(b, p)?)),
        '[' => {
            *p += 1;
            let mut a = vec![];
            loop {
                skip_ws(b, p);
                if *p < b.len() && b[*p] == ']' {
                    *p += 1;
                    break;
                }
                a.push(parse_val(b, p)?);
                skip_ws(b, p);
                if *p < b.len() && b[*p] == ',' {
                    *p += 1;
                }
            }
            Ok(Json::Arr(a))
        }
        '{' => {
            *p += 1;
            let mut m = BTreeMap::new();
            loop {
                skip_ws(b, p);
                if *p < b.len() && b[*p] == '}' {
                    *p += 1;
                    break;
                }
                let k = parse_string(b, p)?;
                skip_ws(b, p);
                if *p >= b.len() || b[*p] != ':' {
                    return Err("expected :".into());
                }
                *p += 1;
                let v = parse_val(b, p)?;
                m.insert(k, v);
                skip_ws(b, p);
                if *p < b.len() && b[*p] == ',' {
                    *p += 1;
                }
            }
            Ok(Json::Obj(m))
        }
        _ => {
            let st = *p;
            while *p < b.len() && (b[*p].is_ascii_digit() || "+-.eE".contains(b[*p])) {
                *p += 1;
            }
            let t: String = b[st..*p].iter().collect();
            if let Ok(i) = t.parse::<i64>() {
                Ok(Json::Int(i))
            } else {
                t.parse::<f64>().map(Json::Float).map_err(|e| format!("bad number {:?}: {}", t, e))
            }
        }
    }
}

fn parse_string(b: &[char], p: &mut usize) -> Result<String, String> {
    if b[*p] != '"' {
        return Err("expected string".into());
    }
    *p += 1;
    let mut s = String::new();
    while *p < b.len() {
        let c = b[*p];
        *p += 1;
        match c {
            '"' => return Ok(s),
            '\\' => {
                let e = b[*p];
                *p += 1;
                match e {
                    'n' => s.push('\n'),
                    'r' => s.push('\r'),
                    't' => s.push('\t'),
                    'b' => s.push('\u{8}'),
                    'f' => s.push('\u{c}'),
                    'u' => {
                        let h: String = b[*p..*p + 4].iter().collect();
                        *p += 4;
                        let mut cp = u32::from_str_radix(&h, 16).map_err(|e| e.to_string())?;
                        if (0xD800..0xDC00).contains(&cp) && *p + 6 <= b.len() && b[*p] == '\\' && b[*p + 1] == 'u' {
                            let h2: String = b[*p + 2..*p + 6].iter().collect();
                            let lo = u32::from_str_radix(&h2, 16).map_err(|e| e.to_string())?;
                            *p += 6;
                            cp = 0x10000 + ((cp - 0xD800) << 10) + (lo - 0xDC00);
                        }
                        s.push(char::from_u32(cp).unwrap_or('\u{fffd}'));
                    }
                    o => s.push(o),
                }
            }
            c => s.push(c),
        }
    }
    Err("unterminated string".into())
}

// ---------------------------------------------------------------- panic capture

thread_local! {
    static LAST_PANIC: RefCell<Option<(String, String)>> = const { RefCell::new(None) };
}

/// Install a process-wide hook that records (message, file:line) per thread and prints nothing.
pub fn install_panic_hook() {
    std::panic::set_hook(Box::new(|info| {
        let msg = if let Some(s) = info.payload().downcast_ref::<&str>() {
            s.to_string()
        } else if let Some(s) = info.payload().downcast_ref::<String>() {
            s.clone()
        } else {
            "<non-string panic>".to_string()
        };
        let loc = info.location().map(|l| format!("{}:{}", l.file(), l.line())).unwrap_or_default();
        LAST_PANIC.with(|p| *p.borrow_mut() = Some((msg, loc)));
    }));
}

pub fn take_panic() -> Option<(String, String)> {
    LAST_PANIC.with(|p| p.borrow_mut().take())
}

/// Run `f`, converting a panic into Err((message, location)).
pub fn guarded<T>(f: impl FnOnce() -> T) -> Result<T, (String, String)> {
    let r = std::panic::catch_unwind(std::panic::AssertUnwindSafe(f));
    match r {
        Ok(v) => Ok(v),
        Err(_) => Err(take_panic().unwrap_or(("<unknown panic>".into(), String::new()))),
    }
}

/// Strip a panic location to the repo-relative file (line numbers removed) for signatures.
pub fn panic_site(loc: &str) -> String {
    let f = loc.rsplit_once(':').map(|x| x.0).unwrap_or(loc);
    let f = f.strip_prefix("/repo/").unwrap_or(f);
    f.to_string()
}
