#![allow(dead_code, unused_imports)]
mod ast;
mod corpus;
mod eval;
mod hostlog;
mod mon;
mod native;
mod pipe;
mod pool;
mod prog;
mod props;
mod reflex;
mod refparse;
mod run;
mod store;
mod util;
mod value;

use mon::Mon;
use pipe::*;
use store::{Basic, Simple, Store};
use value::{readback, Mk, V};

fn probe<D: Store + Mk>(src: &str, verbose: bool) {
    println!("== {} ==", D::NAME);
    let mut m: Mon<D> = Mon::fresh();
    m.max_instr = 10_000;
    m.max_data = 100_000;
    match compile(src, &mut m) {
        Err(f) => println!("  {}", f.show()),
        Ok(c) => {
            if verbose {
                for t in &c.tokens {
                    println!("  tok {:?} {:?} @{}:{}", t.get_token_type(), t.get_text(), t.get_line(), t.get_column());
                }
                println!("  root {}", c.parse.get_root());
                for (i, n) in c.parse.get_nodes().iter().enumerate() {
                    println!(
                        "  node {:2} {:?} {:?} p={:?} l={:?} r={:?}",
                        i,
                        n.get_definition(),
                        n.get_lex_token().get_text(),
                        n.get_parent(),
                        n.get_left(),
                        n.get_right()
                    );
                }
                for l in disasm(&m, c.instr_start, c.instr_end) {
                    println!("  {}", l);
                }
                for j in c.jump_start..c.jump_end {
                    println!("  jump[{}] = {:?}", j, m.get_from_jump_table_(j));
                }
                println!("  meta {:?}", c.build.instruction_metadata().iter().map(|x| x.get_parse_node_index()).collect::<Vec<_>>());
            }
            let input = {
                use garnish_lang_traits::GarnishData;
                m.add_unit().unwrap()
            };
            if let Err(e) = start(&mut m, *c.build.jump_index(), input) {
                println!("  start: {}", e);
                return;
            }
            let end = run(&mut m, 10_000);
            println!("  run: {:?}", end);
            use garnish_lang_traits::GarnishData;
            match m.get_current_value() {
                Some(a) => println!("  value: {:?}", readback(&m, a).map(|v| v.show())),
                None => println!("  value: none"),
            }
            println!("  depth regs={} vals={} frames={} shadow_errors={:?}", m.regs.len(), m.vals.len(), m.frames.len(), m.shadow_errors);
        }
    }
}

impl<D: Store + Mk> Mon<D> {
    fn get_from_jump_table_(&self, j: usize) -> Option<usize> {
        use garnish_lang_traits::GarnishData;
        self.get_from_jump_table(j)
    }
}

fn main() {
    util::install_panic_hook();
    let args: Vec<String> = std::env::args().collect();
    if args.len() < 2 {
        eprintln!("usage: gmon <cmd> ...");
        std::process::exit(2);
    }
    match args[1].as_str() {
        "probe" => {
            let verbose = args.iter().any(|a| a == "-v");
            let src = args.iter().skip(2).find(|a| *a != "-v").cloned().unwrap_or_default();
            let src = src.replace("\\n", "\n").replace("\\t", "\t");
            probe::<Simple>(&src, verbose);
            probe::<Basic>(&src, false);
            let _ = V::Unit;
        }
        "judge" => {
            let src = args.get(3).cloned().unwrap_or_default().replace("\\n", "\n").replace("\\t", "\t");
            let acc = props::sweep::judge_one(&args[2], &src);
            println!("counters: {:?}", acc.counters);
            for (k, v) in &acc.violations {
                println!("VIOLATION {} :: {}", k, v.desc);
            }
        }
        "deep" => props::c07::deep_child(&args[2..]),
        "pipe2m" => props::c03::pipe_child(&args[2..]),
        "check" => cmd_check(&args[2..]),
        "replay" => cmd_replay(&args[2..]),
        other => {
            eprintln!("unknown command {}", other);
            std::process::exit(2);
        }
    }
}

fn arg_val(args: &[String], name: &str) -> Option<String> {
    args.iter().position(|a| a == name).and_then(|i| args.get(i + 1)).cloned()
}

fn cmd_check(args: &[String]) {
    let prop = args.get(0).cloned().unwrap_or_default();
    let tier = match arg_val(args, "--tier").as_deref() {
        Some("thorough") => run::Tier::Thorough,
        _ => run::Tier::Quick,
    };
    let seed: u64 = arg_val(args, "--seed").and_then(|s| s.parse().ok()).unwrap_or(1);
    let threads: usize = arg_val(args, "--threads").and_then(|s| s.parse().ok()).unwrap_or(16);
    let out = arg_val(args, "--out").unwrap_or_else(|| "/dev/stdout".to_string());
    let ctx = run::Ctx { prop: prop.clone(), tier, seed, threads, only_case: None, progress: arg_val(args, "--progress"), hang_out: Some(format!("{}.hang", out)) };
    let t0 = std::time::Instant::now();
    match props::dispatch(&ctx) {
        None => {
            eprintln!("no check for property {}", prop);
            std::process::exit(2);
        }
        Some((acc, rule, exhaustive)) => {
            let wall = t0.elapsed().as_secs_f64();
            let j = run::report_json(&ctx, &acc, &rule, exhaustive, &props::assumptions(&prop), wall);
            std::fs::write(&out, j.to_string()).expect("write report");
        }
    }
}

fn cmd_replay(args: &[String]) {
    let path = args.get(0).cloned().unwrap_or_default();
    let text = std::fs::read_to_string(&path).expect("read replay file");
    let j = util::Json::parse(&text).expect("parse replay file");
    let prop = j.get("property").and_then(|x| x.as_str()).unwrap_or("").to_string();
    let seed = j.get("seed").and_then(|x| x.as_i64()).unwrap_or(1) as u64;
    let case = j.get("case").and_then(|x| x.as_i64()).unwrap_or(0) as u64;
    let tier = if j.get("tier").and_then(|x| x.as_str()) == Some("thorough") { run::Tier::Thorough } else { run::Tier::Quick };
    let ctx = run::Ctx { prop: prop.clone(), tier, seed, threads: 1, only_case: Some(case), progress: None, hang_out: None };
    println!("replaying {} case {} (seed {}, tier {:?}); recorded signature: {}", prop, case, seed, tier, j.get("signature").and_then(|x| x.as_str()).unwrap_or("?"));
    match props::dispatch(&ctx) {
        None => {
            eprintln!("no check for property {}", prop);
            std::process::exit(2);
        }
        Some((acc, _, _)) => {
            for v in acc.violations.values() {
                println!("VIOLATED {}\n    {}\n    payload: {}", v.sig, v.desc, v.payload.to_string());
            }
            for m in &acc.inconclusive {
                println!("INCONCLUSIVE {}", m);
            }
            if acc.violations.is_empty() {
                println!("held on this case ({} executions)", acc.evals);
            } else {
                std::process::exit(1);
            }
        }
    }
}
