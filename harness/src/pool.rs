//! Representative values of every language type (empty / singleton / typical / nested), shared by
//! the matrix checks (C08, C10, C12) and the input pools of the program-level checks.

use crate::value::{SymPart, V};
use garnish_lang_traits::GarnishDataType as T;

pub fn sym(name: &str) -> V {
    V::sym(name)
}
pub fn list(xs: Vec<V>) -> V {
    V::List(xs)
}
pub fn range(a: i32, b: i32) -> V {
    V::Range(Box::new(V::Int(a)), Box::new(V::Int(b)))
}
pub fn slice(v: V, a: i32, b: i32) -> V {
    V::Slice(Box::new(v), Box::new(range(a, b)))
}
pub fn concat(a: V, b: V) -> V {
    V::Concat(Box::new(a), Box::new(b))
}
pub fn kv(k: &str, v: V) -> V {
    V::pair(sym(k), v)
}

/// several representatives per type; `rich` adds nested / larger ones (thorough tier)
pub fn reps(t: T, rich: bool) -> Vec<V> {
    let mut v = match t {
        T::Unit => vec![V::Unit],
        T::True => vec![V::True],
        T::False => vec![V::False],
        T::Number => vec![V::Int(0), V::Int(7), V::Int(-3), V::Float(2.5)],
        T::Type => vec![V::Type(T::Number), V::Type(T::List)],
        T::Char => vec![V::Char('a'), V::Char('é')],
        T::Byte => vec![V::Byte(0), V::Byte(200)],
        T::Symbol => vec![sym("alpha"), sym("beta")],
        T::SymbolList => vec![V::SymList(vec![SymPart::Sym(sym_u("alpha")), SymPart::Sym(sym_u("beta"))])],
        T::CharList => vec![V::str(""), V::str("x"), V::str("héllo")],
        T::ByteList => vec![V::ByteList(vec![]), V::ByteList(vec![9]), V::ByteList(vec![1, 2, 250])],
        T::Pair => vec![V::pair(V::Int(1), V::Int(2)), kv("alpha", V::Int(5))],
        T::Range => vec![range(0, 3), range(5, 5)],
        T::Concatenation => vec![concat(V::Int(1), V::Int(2)), concat(list(vec![V::Int(1), kv("alpha", V::Int(9))]), V::Int(3))],
        T::Slice => vec![slice(list(vec![V::Int(1), V::Int(2), V::Int(3)]), 0, 1), slice(V::str("abcdef"), 1, 3)],
        T::Partial => vec![V::Partial(Box::new(V::Expr(0)), Box::new(V::Int(1))), V::Partial(Box::new(V::Int(4)), Box::new(V::Int(1)))],
        T::List => vec![list(vec![]), list(vec![V::Int(4)]), list(vec![V::Int(1), kv("alpha", V::Int(2)), V::str("z")])],
        T::Expression => vec![V::Expr(0)],
        T::External => vec![V::External(3)],
        T::Invalid | T::Custom => vec![],
    };
    if rich {
        match t {
            T::Number => v.extend([V::Int(i32::MAX), V::Int(i32::MIN), V::Float(-0.0), V::Float(1e300)]),
            T::CharList => v.extend([V::str("😀"), V::str("a\"b\\c\n")]),
            T::List => v.extend([
                list(vec![list(vec![V::Int(1)]), list(vec![])]),
                list(vec![kv("alpha", V::Int(1)), kv("beta", V::Int(2)), kv("gamma", list(vec![V::Int(3)]))]),
                list(vec![V::Unit, V::Unit]),
            ]),
            T::Pair => v.extend([V::pair(V::pair(V::Int(1), V::Int(2)), list(vec![V::Int(3)]))]),
            T::Concatenation => v.extend([concat(concat(V::Int(1), V::str("a")), concat(list(vec![]), V::Int(2)))]),
            T::Slice => v.extend([
                slice(concat(list(vec![V::Int(1), V::Int(2)]), V::Int(3)), 0, 2),
                slice(V::ByteList(vec![1, 2, 3, 4]), 1, 2),
                slice(V::SymList(vec![SymPart::Sym(sym_u("alpha")), SymPart::Sym(sym_u("beta")), SymPart::Sym(sym_u("gamma"))]), 0, 1),
            ]),
            T::Range => v.extend([range(-2, 2), range(3, 1)]),
            T::SymbolList => v.extend([V::SymList(vec![SymPart::Sym(sym_u("alpha")), SymPart::Sym(sym_u("beta")), SymPart::Sym(sym_u("gamma"))])]),
            T::ByteList => v.extend([V::ByteList(vec![0, 0, 0, 0, 0])]),
            _ => {}
        }
    }
    v
}

pub fn sym_u(name: &str) -> u64 {
    garnish_lang_simple_data::symbol_value(name)
}

pub fn tname(t: T) -> String {
    format!("{:?}", t)
}
