//! Native host plumbing: the stores' own extension points (`SimpleGarnishData::set_resolver`,
//! `BasicDataCompanion`) answered from a per-thread script, with their own call log. Under
//! `HostMode::Native` the `Mon` wrapper forwards `resolve` / `apply` to the wrapped store, so the
//! shipped path from the runtime through the store to the host callback is what runs.

use crate::mon::apply_sentinel;
use crate::store::{Simple, Store};
use crate::value::{construct, readback, Mk, V};
use garnish_lang_simple_data::{BasicData, BasicDataCompanion, BasicGarnishData, DataError};
use garnish_lang_traits::{GarnishData, GarnishDataType, Instruction};
use std::cell::RefCell;
use std::collections::HashMap;

#[derive(Clone, Debug, PartialEq)]
pub enum NativeCall {
    Resolve(u64, bool),
    Apply(usize, Result<V, String>, bool),
}

#[derive(Default)]
pub struct NativeScript {
    pub resolve: HashMap<u64, V>,
    pub apply_accept: bool,
    pub log: Vec<NativeCall>,
}

thread_local! {
    pub static SCRIPT: RefCell<NativeScript> = RefCell::new(NativeScript::default());
}

pub fn install(resolve: &HashMap<u64, V>, apply_accept: bool) {
    SCRIPT.with(|s| {
        let mut s = s.borrow_mut();
        s.resolve = resolve.clone();
        s.apply_accept = apply_accept;
        s.log.clear();
    });
}

pub fn take_log() -> Vec<NativeCall> {
    SCRIPT.with(|s| std::mem::take(&mut s.borrow_mut().log))
}

fn answer_resolve<D: Mk>(d: &mut D, symbol: u64) -> Result<bool, DataError> {
    let v = SCRIPT.with(|s| s.borrow().resolve.get(&symbol).cloned());
    let answered = match v {
        Some(v) => {
            let a = construct(d, &v)?;
            d.push_register(a)?;
            true
        }
        None => false,
    };
    SCRIPT.with(|s| s.borrow_mut().log.push(NativeCall::Resolve(symbol, answered)));
    Ok(answered)
}

fn answer_apply<D: Mk>(d: &mut D, ext: usize, input: usize) -> Result<bool, DataError> {
    let arg = readback(d, input);
    let accept = SCRIPT.with(|s| s.borrow().apply_accept);
    if accept {
        let v = apply_sentinel(ext, arg.as_ref().unwrap_or(&V::Unit));
        let a = construct(d, &v)?;
        d.push_register(a)?;
    }
    SCRIPT.with(|s| s.borrow_mut().log.push(NativeCall::Apply(ext, arg, accept)));
    Ok(accept)
}

// ------------------------------------------------------------------ SimpleGarnishData

fn simple_resolver(d: &mut Simple, symbol: u64) -> Result<bool, DataError> {
    answer_resolve(d, symbol)
}

/// a fresh SimpleGarnishData whose resolver is the scripted native one
pub fn simple_with_native_resolver() -> Simple {
    let mut d = Simple::fresh();
    d.set_resolver(simple_resolver);
    d
}

// ------------------------------------------------------------------ BasicGarnishData

#[derive(Clone, Debug, PartialEq, Eq, PartialOrd)]
pub struct ScriptCompanion;

pub type BasicN = BasicGarnishData<(), ScriptCompanion>;

impl BasicDataCompanion<()> for ScriptCompanion {
    fn resolve(data: &mut BasicN, symbol: u64) -> Result<bool, DataError> {
        answer_resolve(data, symbol)
    }
    fn apply(data: &mut BasicN, external_value: usize, input_addr: usize) -> Result<bool, DataError> {
        answer_apply(data, external_value, input_addr)
    }
    fn defer_op(_data: &mut BasicN, _operation: Instruction, _left: (GarnishDataType, usize), _right: (GarnishDataType, usize)) -> Result<bool, DataError> {
        Ok(false)
    }
}

impl Store for BasicN {
    const NAME: &'static str = "basic-native";
    const FRAMES_IN_REGISTERS: bool = false;
    fn fresh() -> Self {
        BasicGarnishData::new(ScriptCompanion).expect("BasicGarnishData::new")
    }
    fn symbol_name(&self, sym: u64) -> Option<String> {
        self.get_symbol_string(sym).ok().flatten()
    }
}

impl Mk for BasicN {
    fn mk_char_list(&mut self, s: &str) -> Result<usize, DataError> {
        let n = s.chars().count();
        let start = self.push_to_data_block(BasicData::CharList(n))?;
        for c in s.chars() {
            self.push_to_data_block(BasicData::Char(c))?;
        }
        Ok(start)
    }
    fn mk_byte_list(&mut self, b: &[u8]) -> Result<usize, DataError> {
        let start = self.push_to_data_block(BasicData::ByteList(b.len()))?;
        for x in b {
            self.push_to_data_block(BasicData::Byte(*x))?;
        }
        Ok(start)
    }
}
