//! `Mon<D>`: a delegating GarnishData wrapper — the observation boundary.
//! Records an event log, keeps a shadow model of the stacks / instruction list / jump table,
//! answers host callbacks from a script and enforces budgets (deterministic "fault injection").

use crate::store::Store;
use crate::value::{construct, readback, Mk, V};
use garnish_lang_simple_data::{DataError, SimpleNumber};
use garnish_lang_traits::{Extents, GarnishData, GarnishDataType, Instruction, SymbolListPart};
use std::collections::HashMap;

#[derive(Clone, Debug, PartialEq)]
pub enum HostCall {
    Resolve { sym: u64, answered: bool },
    Apply { ext: usize, arg: Result<V, String>, answered: bool },
    Defer { op: Instruction, lt: GarnishDataType, l: usize, rt: GarnishDataType, r: usize, lv: Option<V>, rv: Option<V>, answered: bool },
}

#[derive(Clone, Debug, PartialEq)]
pub enum HostMode {
    /// forward to the wrapped store's own callbacks (shipped plumbing), still logged
    Native,
    /// answered by the script below
    Script,
}

#[derive(Clone, Debug)]
pub struct Host {
    pub mode: HostMode,
    /// symbols the host resolves, and what it pushes for them
    pub resolve: HashMap<u64, V>,
    /// Some(f): apply accepted, result pushed is sentinel built by `apply_result`
    pub apply_accept: bool,
    pub defer_accept: bool,
}

impl Host {
    pub fn none() -> Host {
        Host { mode: HostMode::Native, resolve: HashMap::new(), apply_accept: false, defer_accept: false }
    }
    pub fn declining() -> Host {
        Host { mode: HostMode::Script, resolve: HashMap::new(), apply_accept: false, defer_accept: false }
    }
    pub fn accepting() -> Host {
        Host { mode: HostMode::Script, resolve: HashMap::new(), apply_accept: true, defer_accept: true }
    }
}

/// value a scripted host pushes when it accepts an external apply
pub fn apply_sentinel(ext: usize, arg: &V) -> V {
    V::pair(V::Int(900_000 + ext as i32), arg.clone())
}
/// value a scripted host pushes when it accepts a deferred operation
pub fn defer_sentinel(op: Instruction) -> V {
    V::Int(700_000 + op as i32)
}

#[derive(Clone, Debug, PartialEq)]
pub enum JumpHist {
    /// (value pushed, instruction length at that moment): value 0 with a non-empty instruction
    /// list is a placeholder that a later patch must replace
    Pushed(usize, usize),
    Patched(usize, usize),
}

#[derive(Clone, Debug)]
pub struct Mon<D: Store> {
    pub d: D,
    // ---- shadow model
    pub regs: Vec<usize>,
    pub vals: Vec<usize>,
    /// (return address, operand depth at push)
    pub frames: Vec<(usize, usize)>,
    pub shadow_on: bool,
    pub shadow_errors: Vec<String>,
    // ---- build-side log
    pub instr_log: Vec<(usize, Instruction, Option<usize>)>,
    pub jump_log: Vec<(usize, JumpHist)>,
    /// handed out by get_from_jump_table_mut, value unknown until the next call: (index, before)
    pending_patch: Option<(usize, usize)>,
    pub data_log: Vec<(&'static str, usize)>,
    // ---- host
    pub host: Host,
    pub calls: Vec<HostCall>,
    // ---- budgets
    pub ops: u64,
    pub max_ops: u64,
    pub max_instr: usize,
    pub max_data: usize,
    pub budget_hit: Option<&'static str>,
    /// reads of value cells through `&self` getters (a program may double a concatenation on every restart and
    /// then look a key up in it: one step walks 2^k items without a single mutating call)
    pub reads: std::cell::Cell<u64>,
    pub max_reads: u64,
    pub read_budget_hit: std::cell::Cell<bool>,
    // ---- counters
    pub n_calls: u64,
}

impl<D: Store + Mk> Mon<D> {
    pub fn new(d: D) -> Self {
        let mut m = Mon {
            d,
            regs: vec![],
            vals: vec![],
            frames: vec![],
            shadow_on: true,
            shadow_errors: vec![],
            instr_log: vec![],
            jump_log: vec![],
            pending_patch: None,
            data_log: vec![],
            host: Host::none(),
            calls: vec![],
            ops: 0,
            max_ops: u64::MAX,
            max_instr: usize::MAX,
            max_data: usize::MAX,
            budget_hit: None,
            reads: std::cell::Cell::new(0),
            max_reads: u64::MAX,
            read_budget_hit: std::cell::Cell::new(false),
            n_calls: 0,
        };
        m.resync();
        m
    }
    pub fn fresh() -> Self {
        Self::new(D::fresh())
    }
    pub fn with_host(mut self, h: Host) -> Self {
        self.host = h;
        self
    }

    /// rebuild the shadow stacks from what the store reports (used when wrapping a used store)
    pub fn resync(&mut self) {
        self.vals = self.d.value_stack_entries();
        // frames / registers can only be recovered for an idle store; wrap idle stores only
        self.regs.clear();
        self.frames.clear();
        let n = self.d.get_register_len();
        if !D::FRAMES_IN_REGISTERS {
            for i in 0..n {
                if let Some(a) = self.d.get_register(i) {
                    self.regs.push(a);
                }
            }
        } else {
            for i in 0..n {
                if let Some(a) = self.d.get_register(i) {
                    self.regs.push(a);
                }
            }
        }
    }

    pub fn clear_logs(&mut self) {
        self.instr_log.clear();
        self.jump_log.clear();
        self.data_log.clear();
        self.calls.clear();
        self.pending_patch = None;
    }

    fn settle_patch(&mut self) {
        if let Some((i, before)) = self.pending_patch.take() {
            if let Some(after) = self.d.get_from_jump_table(i) {
                if after != before {
                    self.jump_log.push((i, JumpHist::Patched(before, after)));
                }
            }
        }
    }

    /// called by monitors after a whole pipeline stage to flush a pending jump patch
    pub fn settle(&mut self) {
        self.settle_patch();
    }

    fn tick(&mut self) -> Result<(), DataError> {
        self.n_calls += 1;
        self.ops += 1;
        if self.ops > self.max_ops {
            self.budget_hit = Some("ops");
            return Err(DataError::from("verif budget: ops".to_string()));
        }
        Ok(())
    }

    fn note_shadow(&mut self, what: &str) {
        self.refresh_top_value();
        if !self.shadow_on {
            return;
        }
        let expect_len = if D::FRAMES_IN_REGISTERS { self.regs.len() + self.frames.len() } else { self.regs.len() };
        let got = self.d.get_register_len();
        if got != expect_len {
            if self.shadow_errors.len() < 8 {
                self.shadow_errors.push(format!("after {}: get_register_len()={} shadow={}", what, got, expect_len));
            }
            return;
        }
        if !D::FRAMES_IN_REGISTERS {
            if let Some(top) = self.regs.last() {
                let g = self.d.get_register(self.regs.len() - 1);
                if g != Some(*top) && self.shadow_errors.len() < 8 {
                    self.shadow_errors.push(format!("after {}: top register {:?} shadow {}", what, g, top));
                }
            }
        }
        let cv = self.d.get_current_value();
        if cv != self.vals.last().cloned() && self.shadow_errors.len() < 8 {
            self.shadow_errors.push(format!("after {}: current value {:?} shadow {:?}", what, cv, self.vals.last()));
        }
    }

    /// operand depth (frames excluded)
    pub fn depth(&self) -> usize {
        self.regs.len()
    }
    /// operands above the innermost frame
    pub fn depth_above_frame(&self) -> usize {
        match self.frames.last() {
            Some((_, base)) => self.regs.len().saturating_sub(*base),
            None => self.regs.len(),
        }
    }

    fn logd(&mut self, kind: &'static str, r: &Result<usize, DataError>) {
        if let Ok(a) = r {
            if self.data_log.len() < 200_000 {
                self.data_log.push((kind, *a));
            }
        }
    }
    fn count_read(&self) -> Result<(), DataError> {
        let n = self.reads.get() + 1;
        self.reads.set(n);
        if n > self.max_reads {
            self.read_budget_hit.set(true);
            return Err(DataError::from("verif budget: reads".to_string()));
        }
        Ok(())
    }
    fn data_budget(&mut self) -> Result<(), DataError> {
        if self.d.get_data_len() > self.max_data {
            self.budget_hit = Some("data");
            return Err(DataError::from("verif budget: data".to_string()));
        }
        Ok(())
    }
}

macro_rules! fwd {
    ($self:ident . $m:ident ( $($a:expr),* )) => { $self.d.$m($($a),*) };
}

impl<D: Store + Mk> GarnishData for Mon<D> {
    type Error = DataError;
    type Symbol = u64;
    type Byte = u8;
    type Char = char;
    type Number = SimpleNumber;
    type Size = usize;
    type SizeIterator = D::SizeIterator;
    type NumberIterator = D::NumberIterator;
    type InstructionIterator = D::InstructionIterator;
    type DataIndexIterator = D::DataIndexIterator;
    type ValueIndexIterator = D::ValueIndexIterator;
    type RegisterIndexIterator = D::RegisterIndexIterator;
    type JumpTableIndexIterator = D::JumpTableIndexIterator;
    type JumpPathIndexIterator = D::JumpPathIndexIterator;
    type ListIndexIterator = D::ListIndexIterator;
    type ListItemIterator = D::ListItemIterator;
    type ConcatenationItemIterator = D::ConcatenationItemIterator;
    type CharIterator = D::CharIterator;
    type ByteIterator = D::ByteIterator;
    type SymbolListPartIterator = D::SymbolListPartIterator;
    type DataFactory = D::DataFactory;

    fn get_data_len(&self) -> usize {
        fwd!(self.get_data_len())
    }
    fn get_data_iter(&self) -> Self::DataIndexIterator {
        fwd!(self.get_data_iter())
    }

    fn push_value_stack(&mut self, addr: usize) -> Result<(), DataError> {
        self.tick()?;
        let r = self.d.push_value_stack(addr);
        if r.is_ok() {
            self.vals.push(addr);
        }
        self.note_shadow("push_value_stack");
        r
    }
    fn pop_value_stack(&mut self) -> Option<usize> {
        self.n_calls += 1;
        let r = self.d.pop_value_stack();
        let s = self.vals.pop();
        if self.shadow_on && r != s && self.shadow_errors.len() < 8 {
            self.shadow_errors.push(format!("pop_value_stack returned {:?}, shadow {:?}", r, s));
        }
        self.note_shadow("pop_value_stack");
        r
    }
    fn get_current_value(&self) -> Option<usize> {
        fwd!(self.get_current_value())
    }
    fn get_current_value_mut(&mut self) -> Option<&mut usize> {
        // the caller will overwrite the top entry; the shadow is refreshed lazily
        self.n_calls += 1;
        self.vals.pop();
        // placeholder: corrected in `refresh_top_value`
        self.vals.push(usize::MAX);
        self.d.get_current_value_mut()
    }

    fn get_data_type(&self, addr: usize) -> Result<GarnishDataType, DataError> {
        self.count_read()?;
        fwd!(self.get_data_type(addr))
    }
    fn get_number(&self, addr: usize) -> Result<SimpleNumber, DataError> {
        fwd!(self.get_number(addr))
    }
    fn get_type(&self, addr: usize) -> Result<GarnishDataType, DataError> {
        fwd!(self.get_type(addr))
    }
    fn get_char(&self, addr: usize) -> Result<char, DataError> {
        fwd!(self.get_char(addr))
    }
    fn get_byte(&self, addr: usize) -> Result<u8, DataError> {
        fwd!(self.get_byte(addr))
    }
    fn get_symbol(&self, addr: usize) -> Result<u64, DataError> {
        fwd!(self.get_symbol(addr))
    }
    fn get_expression(&self, addr: usize) -> Result<usize, DataError> {
        fwd!(self.get_expression(addr))
    }
    fn get_external(&self, addr: usize) -> Result<usize, DataError> {
        fwd!(self.get_external(addr))
    }
    fn get_pair(&self, addr: usize) -> Result<(usize, usize), DataError> {
        fwd!(self.get_pair(addr))
    }
    fn get_concatenation(&self, addr: usize) -> Result<(usize, usize), DataError> {
        fwd!(self.get_concatenation(addr))
    }
    fn get_range(&self, addr: usize) -> Result<(usize, usize), DataError> {
        fwd!(self.get_range(addr))
    }
    fn get_slice(&self, addr: usize) -> Result<(usize, usize), DataError> {
        fwd!(self.get_slice(addr))
    }
    fn get_partial(&self, addr: usize) -> Result<(usize, usize), DataError> {
        fwd!(self.get_partial(addr))
    }
    fn get_list_len(&self, addr: usize) -> Result<usize, DataError> {
        fwd!(self.get_list_len(addr))
    }
    fn get_list_item(&self, l: usize, i: SimpleNumber) -> Result<Option<usize>, DataError> {
        fwd!(self.get_list_item(l, i))
    }
    fn get_list_item_with_symbol(&self, l: usize, s: u64) -> Result<Option<usize>, DataError> {
        fwd!(self.get_list_item_with_symbol(l, s))
    }
    fn get_char_list_len(&self, addr: usize) -> Result<usize, DataError> {
        fwd!(self.get_char_list_len(addr))
    }
    fn get_char_list_item(&self, addr: usize, i: SimpleNumber) -> Result<Option<char>, DataError> {
        fwd!(self.get_char_list_item(addr, i))
    }
    fn get_byte_list_len(&self, addr: usize) -> Result<usize, DataError> {
        fwd!(self.get_byte_list_len(addr))
    }
    fn get_byte_list_item(&self, addr: usize, i: SimpleNumber) -> Result<Option<u8>, DataError> {
        fwd!(self.get_byte_list_item(addr, i))
    }
    fn get_symbol_list_len(&self, addr: usize) -> Result<usize, DataError> {
        fwd!(self.get_symbol_list_len(addr))
    }
    fn get_symbol_list_item(&self, addr: usize, i: SimpleNumber) -> Result<Option<SymbolListPart<u64, SimpleNumber>>, DataError> {
        fwd!(self.get_symbol_list_item(addr, i))
    }
    fn get_char_list_iter(&self, a: usize, e: Extents<SimpleNumber>) -> Result<Self::CharIterator, DataError> {
        fwd!(self.get_char_list_iter(a, e))
    }
    fn get_byte_list_iter(&self, a: usize, e: Extents<SimpleNumber>) -> Result<Self::ByteIterator, DataError> {
        fwd!(self.get_byte_list_iter(a, e))
    }
    fn get_symbol_list_iter(&self, a: usize, e: Extents<SimpleNumber>) -> Result<Self::SymbolListPartIterator, DataError> {
        fwd!(self.get_symbol_list_iter(a, e))
    }
    fn get_list_item_iter(&self, a: usize, e: Extents<SimpleNumber>) -> Result<Self::ListItemIterator, DataError> {
        fwd!(self.get_list_item_iter(a, e))
    }
    fn get_concatenation_iter(&self, a: usize, e: Extents<SimpleNumber>) -> Result<Self::ConcatenationItemIterator, DataError> {
        fwd!(self.get_concatenation_iter(a, e))
    }

    fn add_unit(&mut self) -> Result<usize, DataError> {
        self.tick()?;
        self.data_budget()?;
        let r = self.d.add_unit();
        self.logd("unit", &r);
        r
    }
    fn add_true(&mut self) -> Result<usize, DataError> {
        self.tick()?;
        self.data_budget()?;
        let r = self.d.add_true();
        self.logd("true", &r);
        r
    }
    fn add_false(&mut self) -> Result<usize, DataError> {
        self.tick()?;
        self.data_budget()?;
        let r = self.d.add_false();
        self.logd("false", &r);
        r
    }
    fn add_number(&mut self, v: SimpleNumber) -> Result<usize, DataError> {
        self.tick()?;
        self.data_budget()?;
        let r = self.d.add_number(v);
        self.logd("number", &r);
        r
    }
    fn add_type(&mut self, v: GarnishDataType) -> Result<usize, DataError> {
        self.tick()?;
        self.data_budget()?;
        let r = self.d.add_type(v);
        self.logd("type", &r);
        r
    }
    fn add_char(&mut self, v: char) -> Result<usize, DataError> {
        self.tick()?;
        self.data_budget()?;
        let r = self.d.add_char(v);
        self.logd("char", &r);
        r
    }
    fn add_byte(&mut self, v: u8) -> Result<usize, DataError> {
        self.tick()?;
        self.data_budget()?;
        let r = self.d.add_byte(v);
        self.logd("byte", &r);
        r
    }
    fn add_symbol(&mut self, v: u64) -> Result<usize, DataError> {
        self.tick()?;
        self.data_budget()?;
        let r = self.d.add_symbol(v);
        self.logd("symbol", &r);
        r
    }
    fn add_expression(&mut self, v: usize) -> Result<usize, DataError> {
        self.tick()?;
        self.data_budget()?;
        let r = self.d.add_expression(v);
        self.logd("expression", &r);
        r
    }
    fn add_external(&mut self, v: usize) -> Result<usize, DataError> {
        self.tick()?;
        self.data_budget()?;
        let r = self.d.add_external(v);
        self.logd("external", &r);
        r
    }
    fn add_pair(&mut self, v: (usize, usize)) -> Result<usize, DataError> {
        self.tick()?;
        self.data_budget()?;
        let r = self.d.add_pair(v);
        self.logd("pair", &r);
        r
    }
    fn add_concatenation(&mut self, l: usize, r_: usize) -> Result<usize, DataError> {
        self.tick()?;
        self.data_budget()?;
        let r = self.d.add_concatenation(l, r_);
        self.logd("concat", &r);
        r
    }
    fn add_range(&mut self, l: usize, r_: usize) -> Result<usize, DataError> {
        self.tick()?;
        self.data_budget()?;
        let r = self.d.add_range(l, r_);
        self.logd("range", &r);
        r
    }
    fn add_slice(&mut self, l: usize, r_: usize) -> Result<usize, DataError> {
        self.tick()?;
        self.data_budget()?;
        let r = self.d.add_slice(l, r_);
        self.logd("slice", &r);
        r
    }
    fn add_partial(&mut self, l: usize, r_: usize) -> Result<usize, DataError> {
        self.tick()?;
        self.data_budget()?;
        let r = self.d.add_partial(l, r_);
        self.logd("partial", &r);
        r
    }
    fn merge_to_symbol_list(&mut self, a: usize, b: usize) -> Result<usize, DataError> {
        self.tick()?;
        self.data_budget()?;
        // a restart that merges a symbol list with itself (`^~ $.$`) doubles one data item on every round: the
        // data budget counts items, so the length of the merged list is bounded here
        let part_len = |d: &D, x: usize| match d.get_data_type(x) {
            Ok(GarnishDataType::SymbolList) => d.get_symbol_list_len(x).unwrap_or(1),
            _ => 1,
        };
        if part_len(&self.d, a) + part_len(&self.d, b) > 65_536 {
            self.budget_hit = Some("data");
            return Err(DataError::from("verif budget: data (symbol list length)".to_string()));
        }
        let r = self.d.merge_to_symbol_list(a, b);
        self.logd("symlist", &r);
        r
    }
    fn start_list(&mut self, len: usize) -> Result<usize, DataError> {
        self.tick()?;
        self.data_budget()?;
        // a list announced larger than the data budget would be refused cell by cell anyway (and BasicGarnishData
        // reserves 2*len cells up front): refuse it here, before the allocation. Lengths in the top half of the
        // range are let through: nothing can be allocated for them, only the size arithmetic can go wrong
        if len > self.max_data.saturating_add(16) && len <= usize::MAX / 2 {
            self.budget_hit = Some("data");
            return Err(DataError::from("verif budget: data (list length)".to_string()));
        }
        self.d.start_list(len)
    }
    fn add_to_list(&mut self, l: usize, i: usize) -> Result<usize, DataError> {
        self.tick()?;
        self.d.add_to_list(l, i)
    }
    fn end_list(&mut self, l: usize) -> Result<usize, DataError> {
        self.tick()?;
        let r = self.d.end_list(l);
        self.logd("list", &r);
        r
    }

    fn get_register_len(&self) -> usize {
        fwd!(self.get_register_len())
    }
    fn push_register(&mut self, addr: usize) -> Result<(), DataError> {
        self.tick()?;
        let r = self.d.push_register(addr);
        if r.is_ok() {
            self.regs.push(addr);
        }
        self.note_shadow("push_register");
        r
    }
    fn get_register(&self, i: usize) -> Option<usize> {
        fwd!(self.get_register(i))
    }
    fn pop_register(&mut self) -> Result<Option<usize>, DataError> {
        self.tick()?;
        let r = self.d.pop_register();
        match &r {
            Ok(Some(a)) => {
                // Simple refuses to pop a frame cell (Err); Basic walks below the frame.
                let at_frame = self.frames.last().map(|f| f.1 == self.regs.len()).unwrap_or(false);
                if D::FRAMES_IN_REGISTERS && at_frame {
                    if self.shadow_on && self.shadow_errors.len() < 8 {
                        self.shadow_errors.push(format!("pop_register returned {} across a frame", a));
                    }
                } else {
                    let s = self.regs.pop();
                    if self.shadow_on && s != Some(*a) && self.shadow_errors.len() < 8 {
                        self.shadow_errors.push(format!("pop_register returned {:?}, shadow {:?}", a, s));
                    }
                }
            }
            Ok(None) => {
                if self.shadow_on && !self.regs.is_empty() && self.shadow_errors.len() < 8 {
                    self.shadow_errors.push(format!("pop_register returned None with {} shadow operands", self.regs.len()));
                }
            }
            Err(_) => {
                // Simple: popping a frame cell is an error and the cell is already gone
                if D::FRAMES_IN_REGISTERS {
                    let at_frame = self.frames.last().map(|f| f.1 == self.regs.len()).unwrap_or(false);
                    if at_frame {
                        self.frames.pop();
                    }
                }
            }
        }
        self.note_shadow("pop_register");
        r
    }

    fn get_instruction_len(&self) -> usize {
        fwd!(self.get_instruction_len())
    }
    fn push_instruction(&mut self, ins: Instruction, data: Option<usize>) -> Result<usize, DataError> {
        self.tick()?;
        self.settle_patch();
        if self.d.get_instruction_len() >= self.max_instr {
            self.budget_hit = Some("instructions");
            return Err(DataError::from("verif budget: instructions".to_string()));
        }
        let r = self.d.push_instruction(ins, data);
        if let Ok(i) = &r {
            if self.instr_log.len() < 200_000 {
                self.instr_log.push((*i, ins, data));
            }
        }
        r
    }
    fn get_instruction(&self, i: usize) -> Option<(Instruction, Option<usize>)> {
        fwd!(self.get_instruction(i))
    }
    fn get_instruction_iter(&self) -> Self::InstructionIterator {
        fwd!(self.get_instruction_iter())
    }
    fn get_instruction_cursor(&self) -> usize {
        fwd!(self.get_instruction_cursor())
    }
    fn set_instruction_cursor(&mut self, i: usize) -> Result<(), DataError> {
        self.n_calls += 1;
        self.d.set_instruction_cursor(i)
    }

    fn get_jump_table_len(&self) -> usize {
        fwd!(self.get_jump_table_len())
    }
    fn push_to_jump_table(&mut self, i: usize) -> Result<(), DataError> {
        self.tick()?;
        self.settle_patch();
        let idx = self.d.get_jump_table_len();
        let r = self.d.push_to_jump_table(i);
        if r.is_ok() && self.jump_log.len() < 200_000 {
            let il = self.d.get_instruction_len();
            self.jump_log.push((idx, JumpHist::Pushed(i, il)));
        }
        r
    }
    fn get_from_jump_table(&self, i: usize) -> Option<usize> {
        fwd!(self.get_from_jump_table(i))
    }
    fn get_from_jump_table_mut(&mut self, i: usize) -> Option<&mut usize> {
        self.n_calls += 1;
        self.settle_patch();
        if let Some(before) = self.d.get_from_jump_table(i) {
            self.pending_patch = Some((i, before));
        }
        self.d.get_from_jump_table_mut(i)
    }

    fn push_frame(&mut self, i: usize) -> Result<(), DataError> {
        self.tick()?;
        let r = self.d.push_frame(i);
        if r.is_ok() {
            self.frames.push((i, self.regs.len()));
        }
        self.note_shadow("push_frame");
        r
    }
    fn pop_frame(&mut self) -> Result<Option<usize>, DataError> {
        self.tick()?;
        let r = self.d.pop_frame();
        match &r {
            Ok(Some(ret)) => match self.frames.pop() {
                Some((sret, base)) => {
                    self.regs.truncate(base);
                    if self.shadow_on && sret != *ret && self.shadow_errors.len() < 8 {
                        self.shadow_errors.push(format!("pop_frame returned {}, shadow {}", ret, sret));
                    }
                }
                None => {
                    if self.shadow_on && self.shadow_errors.len() < 8 {
                        self.shadow_errors.push(format!("pop_frame returned {} with no shadow frame", ret));
                    }
                }
            },
            Ok(None) => {
                if self.shadow_on && !self.frames.is_empty() && self.shadow_errors.len() < 8 {
                    self.shadow_errors.push(format!("pop_frame returned None with {} shadow frames", self.frames.len()));
                }
                if D::FRAMES_IN_REGISTERS {
                    self.regs.clear();
                }
            }
            Err(_) => {}
        }
        self.note_shadow("pop_frame");
        r
    }

    fn add_char_list_from(&mut self, from: usize) -> Result<usize, DataError> {
        self.tick()?;
        self.d.add_char_list_from(from)
    }
    fn add_byte_list_from(&mut self, from: usize) -> Result<usize, DataError> {
        self.tick()?;
        self.d.add_byte_list_from(from)
    }
    fn add_symbol_from(&mut self, from: usize) -> Result<usize, DataError> {
        self.tick()?;
        self.d.add_symbol_from(from)
    }
    fn add_number_from(&mut self, from: usize) -> Result<usize, DataError> {
        self.tick()?;
        self.d.add_number_from(from)
    }

    fn parse_add_number(&mut self, from: &str) -> Result<usize, DataError> {
        self.tick()?;
        self.data_budget()?;
        let r = self.d.parse_add_number(from);
        self.logd("number", &r);
        r
    }
    fn parse_add_symbol(&mut self, from: &str) -> Result<usize, DataError> {
        self.tick()?;
        self.data_budget()?;
        let r = self.d.parse_add_symbol(from);
        self.logd("symbol", &r);
        r
    }
    fn parse_add_char(&mut self, from: &str) -> Result<usize, DataError> {
        self.tick()?;
        let r = self.d.parse_add_char(from);
        self.logd("char", &r);
        r
    }
    fn parse_add_byte(&mut self, from: &str) -> Result<usize, DataError> {
        self.tick()?;
        let r = self.d.parse_add_byte(from);
        self.logd("byte", &r);
        r
    }
    fn parse_add_char_list(&mut self, from: &str) -> Result<usize, DataError> {
        self.tick()?;
        self.data_budget()?;
        let r = self.d.parse_add_char_list(from);
        self.logd("charlist", &r);
        r
    }
    fn parse_add_byte_list(&mut self, from: &str) -> Result<usize, DataError> {
        self.tick()?;
        self.data_budget()?;
        let r = self.d.parse_add_byte_list(from);
        self.logd("bytelist", &r);
        r
    }

    fn resolve(&mut self, symbol: u64) -> Result<bool, DataError> {
        self.tick()?;
        let before = self.regs.len();
        let answered = match self.host.mode {
            HostMode::Native => {
                let r = self.d.resolve(symbol)?;
                if r {
                    // native host pushed straight into the store: mirror it
                    self.mirror_native_push(before);
                }
                r
            }
            HostMode::Script => match self.host.resolve.get(&symbol).cloned() {
                Some(v) => {
                    let a = construct(self, &v)?;
                    self.push_register(a)?;
                    true
                }
                None => false,
            },
        };
        self.calls.push(HostCall::Resolve { sym: symbol, answered });
        Ok(answered)
    }

    fn apply(&mut self, ext: usize, input: usize) -> Result<bool, DataError> {
        self.tick()?;
        let arg = readback(&self.d, input);
        let before = self.regs.len();
        let answered = match self.host.mode {
            HostMode::Native => {
                let r = self.d.apply(ext, input)?;
                if r {
                    self.mirror_native_push(before);
                }
                r
            }
            HostMode::Script => {
                if self.host.apply_accept {
                    let v = apply_sentinel(ext, arg.as_ref().unwrap_or(&V::Unit));
                    let a = construct(self, &v)?;
                    self.push_register(a)?;
                    true
                } else {
                    false
                }
            }
        };
        self.calls.push(HostCall::Apply { ext, arg, answered });
        Ok(answered)
    }

    fn defer_op(&mut self, op: Instruction, left: (GarnishDataType, usize), right: (GarnishDataType, usize)) -> Result<bool, DataError> {
        self.tick()?;
        let lv = readback(&self.d, left.1).ok();
        let rv = readback(&self.d, right.1).ok();
        let before = self.regs.len();
        let answered = match self.host.mode {
            HostMode::Native => {
                let r = self.d.defer_op(op, left, right)?;
                if r {
                    self.mirror_native_push(before);
                }
                r
            }
            HostMode::Script => {
                if self.host.defer_accept {
                    let a = construct(self, &defer_sentinel(op))?;
                    self.push_register(a)?;
                    true
                } else {
                    false
                }
            }
        };
        self.calls.push(HostCall::Defer { op, lt: left.0, l: left.1, rt: right.0, r: right.1, lv, rv, answered });
        Ok(answered)
    }
}

impl<D: Store + Mk> Mon<D> {
    fn mirror_native_push(&mut self, _before: usize) {
        // a native callback pushed registers directly into the wrapped store
        let frames = if D::FRAMES_IN_REGISTERS { self.frames.len() } else { 0 };
        let total = self.d.get_register_len();
        let known = self.regs.len() + frames;
        for i in known..total {
            if let Some(a) = self.d.get_register(i) {
                self.regs.push(a);
            }
        }
    }

    /// after the runtime wrote through `get_current_value_mut`, bring the shadow top in line
    pub fn refresh_top_value(&mut self) {
        if let Some(last) = self.vals.last_mut() {
            if *last == usize::MAX {
                if let Some(v) = self.d.get_current_value() {
                    *last = v;
                }
            }
        }
    }
}

impl<D: Store + Mk> Store for Mon<D> {
    const NAME: &'static str = D::NAME;
    const FRAMES_IN_REGISTERS: bool = D::FRAMES_IN_REGISTERS;
    fn fresh() -> Self {
        Mon::new(D::fresh())
    }
    fn symbol_name(&self, sym: u64) -> Option<String> {
        self.d.symbol_name(sym)
    }
    fn value_stack_depth(&self) -> usize {
        self.d.value_stack_depth()
    }
}
